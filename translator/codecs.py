"""Tie (T) for C14: fail-closed tabulating translator  Python-ast -> Gallina tables.

For every export/import codec of /repo/pywhy_graphs/export the *per-pair body* of the conversion loop is located in
the ast (a changed loop header / missing statement is a translation error), and that body is evaluated by the small
whitelisting interpreter below on every input of its finite pair domain (64 pair states, or all endpoint-code pairs).
Nothing of /repo is imported or executed: graphs, arrays and enum classes are mocks defined here; the enum values and
EDGE_TO_VALUE_MAPPING are read from the ast of config.py.  Any construct outside the whitelist raises
TranslationError (the check fails closed).  The result is emitted as Gallina lists (one entry per input, with the
source lines that produced it as a comment) into coq/theories/Gen/Gen_Enums.v and Gen_Codecs.v; the proofs in
C14/GenProofs.v are about these tables.  harness/c14.py re-checks every cell against the real functions.
"""
import ast
import hashlib
import os

LAYERS = ["directed", "bidirected", "undirected", "circle"]   # layer index used in the emitted ops
BITS = ["dir_uv", "dir_vu", "cir_uv", "cir_vu", "bid", "und"]


class TranslationError(Exception):
    pass


class PyExc(Exception):
    """an exception raised BY the interpreted code"""
    def __init__(self, name):
        Exception.__init__(self, name)
        self.name = name


class _Continue(Exception):
    pass


class _Return(Exception):
    def __init__(self, v):
        self.v = v


# ------------------------------------------------------------------ mocks
class EnumMember:
    def __init__(self, cls, name, value):
        self.cls, self.name, self.value = cls, name, value

    def __repr__(self):
        return "%s.%s" % (self.cls, self.name)


class EnumClass:
    def __init__(self, name, members):
        self.name = name
        self.members = [EnumMember(name, k, v) for k, v in members]

    def get(self, k):
        for m in self.members:
            if m.name == k:
                return m
        raise TranslationError("unknown enum member %s.%s" % (self.name, k))

    def from_value(self, v):
        for m in self.members:
            if m.value == v:
                return m
        raise PyExc("ValueError")


def bits_of(k):
    return {b: bool((k >> i) & 1) for i, b in enumerate(BITS)}


class MockLayer:
    def __init__(self, g, name):
        self.g, self.name = g, name

    def has_edge(self, a, b):
        return self.g.has_edge(a, b, self.name)


class MockGraph:
    """two nodes 0 (u) and 1 (v); state = pair-state bits; add_edge only records"""
    def __init__(self, cls, layers, k=0, nodes=(0, 1)):
        self.cls, self.layers, self.s, self.ops, self.nodes_ = cls, layers, bits_of(k), [], list(nodes)

    def attr(self, name):
        if name.endswith("_edge_name") and name[:-len("_edge_name")] in self.layers:
            return name[:-len("_edge_name")]
        if name == "nodes":
            return list(self.nodes_)
        raise PyExc("AttributeError")

    def _has(self, a, b, t):
        u, v = self.nodes_
        if t not in self.layers:
            raise PyExc("KeyError")
        if {a, b} != {u, v}:
            return False
        fwd = (a == u)
        if t == "directed":
            return self.s["dir_uv"] if fwd else self.s["dir_vu"]
        if t == "circle":
            return self.s["cir_uv"] if fwd else self.s["cir_vu"]
        return self.s["bid"] if t == "bidirected" else self.s["und"]

    def has_edge(self, a, b, edge_type="any"):
        if edge_type == "any":
            return any(self._has(a, b, t) for t in self.layers)
        return self._has(a, b, edge_type)

    def add_edge(self, a, b, edge_type="all"):
        if edge_type not in self.layers:
            raise PyExc("KeyError")
        self.ops.append((a, b, edge_type))

    def add_node(self, n):
        self.ops.append(("node", n))

    def neighbors(self, n):
        u, v = self.nodes_
        adj = any(self.s.values())
        return [x for x in (u, v) if x != n] if adj and n in (u, v) else []

    def get_graphs(self):
        return {t: MockLayer(self, t) for t in self.layers}


class MockArray:
    def __init__(self, d):
        self.d = dict(d)

    def get(self, key):
        if key not in self.d:
            raise TranslationError("array read outside the pair: %r" % (key,))
        return self.d[key]

    def set(self, key, v):
        if key not in self.d:
            raise TranslationError("array write outside the pair: %r" % (key,))
        self.d[key] = v


class MockMat:
    """n x n integer matrix for the whole-function evaluation of graph_to_numpy (elementwise operations only)"""
    def __init__(self, n, rows=None):
        self.n = n
        self.rows = rows if rows is not None else [[0] * n for _ in range(n)]


class Mask:
    def __init__(self, cells):
        self.cells = cells


class MockModule:
    def __init__(self, name, attrs):
        self.name, self.attrs = name, attrs


class Stale:
    """value of a local that the body reads but (in this iteration) did not assign"""
    def __repr__(self):
        return "STALE"


STALE = Stale()


# ------------------------------------------------------------------ interpreter
class Interp:
    def __init__(self, path, globs):
        self.path = path
        self.src = open(path).read()
        self.tree = ast.parse(self.src)
        self.globs = dict(globs)
        self.funcs = {n.name: n for n in self.tree.body if isinstance(n, ast.FunctionDef)}
        self.trace = []

    def err(self, node, what):
        raise TranslationError("T:%s:%s: unsupported %s" % (os.path.basename(self.path), getattr(node, "lineno", "?"), what))

    def text(self, node):
        return ast.get_source_segment(self.src, node)

    # -- statements
    def block(self, stmts, env):
        for st in stmts:
            self.stmt(st, env)

    def stmt(self, st, env):
        if isinstance(st, ast.If):
            self.block(st.body if self.truth(self.ev(st.test, env), st) else st.orelse, env)
        elif isinstance(st, ast.Assign):
            if len(st.targets) != 1:
                self.err(st, "multiple assignment targets")
            self.assign(st.targets[0], self.ev(st.value, env), env)
            self.trace.append(st.lineno)
        elif isinstance(st, ast.AugAssign):
            cur = self.ev(ast.copy_location(_load(st.target), st), env)
            val = self.binop(st.op, cur, self.ev(st.value, env), st)
            self.assign(st.target, val, env)
            self.trace.append(st.lineno)
        elif isinstance(st, ast.Expr):
            if isinstance(st.value, ast.Constant) and isinstance(st.value.value, str):
                return
            self.ev(st.value, env)
            if not (isinstance(st.value, ast.Call) and isinstance(st.value.func, ast.Name) and st.value.func.id == "print"):
                self.trace.append(st.lineno)
        elif isinstance(st, ast.Raise):
            self.trace.append(st.lineno)
            exc = st.exc
            if isinstance(exc, ast.Call):
                exc = exc.func
            if not isinstance(exc, ast.Name):
                self.err(st, "raise form")
            raise PyExc(exc.id)
        elif isinstance(st, ast.Continue):
            self.trace.append(st.lineno)
            raise _Continue()
        elif isinstance(st, ast.Return):
            raise _Return(self.ev(st.value, env) if st.value is not None else None)
        elif isinstance(st, ast.For):
            if st.orelse:
                self.err(st, "for-else")
            for item in list(self.iterate(self.ev(st.iter, env), st)):
                self.assign(st.target, item, env)
                try:
                    self.block(st.body, env)
                except _Continue:
                    pass
        elif isinstance(st, ast.Pass):
            pass
        else:
            self.err(st, "statement %s" % type(st).__name__)

    def assign(self, tgt, val, env):
        if isinstance(tgt, ast.Name):
            env[tgt.id] = val
        elif isinstance(tgt, ast.Tuple):
            vals = list(val)
            if len(vals) != len(tgt.elts):
                self.err(tgt, "unpacking arity")
            for t, v in zip(tgt.elts, vals):
                self.assign(t, v, env)
        elif isinstance(tgt, ast.Subscript):
            obj = self.ev(tgt.value, env)
            key = self.ev(tgt.slice, env)
            if isinstance(obj, MockArray):
                obj.set(key, val)
            elif isinstance(obj, MockMat) and isinstance(key, Mask) and isinstance(val, int) and not isinstance(val, bool):
                for i, j in key.cells:
                    obj.rows[i][j] = val
            elif isinstance(obj, dict):
                obj[key] = val
            else:
                self.err(tgt, "subscript store on %s" % type(obj).__name__)
        else:
            self.err(tgt, "assignment target %s" % type(tgt).__name__)

    def iterate(self, v, node):
        if isinstance(v, (list, tuple)):
            return v
        if isinstance(v, dict):
            return list(v.keys())
        if isinstance(v, EnumClass):
            return v.members
        self.err(node, "iteration over %s" % type(v).__name__)

    def truth(self, v, node):
        if isinstance(v, Stale):
            raise PyExc("UnboundLocalError")
        if isinstance(v, (bool, int, str, list, tuple, dict)) or v is None:
            return bool(v)
        self.err(node, "truth value of %s" % type(v).__name__)

    # -- expressions
    def ev(self, e, env):
        if isinstance(e, ast.Constant):
            if isinstance(e.value, (int, str, bool)) or e.value is None:
                return e.value
            self.err(e, "constant")
        if isinstance(e, ast.Name):
            if e.id in env:
                v = env[e.id]
                if isinstance(v, Stale):
                    raise PyExc("UnboundLocalError")
                return v
            if e.id in self.globs:
                return self.globs[e.id]
            if e.id in self.funcs:
                return self.funcs[e.id]
            self.err(e, "name %s" % e.id)
        if isinstance(e, ast.BoolOp):
            isand = isinstance(e.op, ast.And)
            v = None
            for sub in e.values:
                v = self.ev(sub, env)
                t = self.truth(v, sub)
                if isand and not t:
                    return v
                if not isand and t:
                    return v
            return v
        if isinstance(e, ast.UnaryOp):
            v = self.ev(e.operand, env)
            if isinstance(e.op, ast.Not):
                return not self.truth(v, e)
            if isinstance(e.op, ast.USub) and isinstance(v, int):
                return -v
            self.err(e, "unary operator")
        if isinstance(e, ast.BinOp):
            return self.binop(e.op, self.ev(e.left, env), self.ev(e.right, env), e)
        if isinstance(e, ast.Compare):
            left = self.ev(e.left, env)
            if isinstance(left, MockMat):
                if len(e.ops) == 1 and isinstance(e.ops[0], ast.NotEq):
                    rv = self.ev(e.comparators[0], env)
                    if isinstance(rv, int) and not isinstance(rv, bool):
                        return Mask([(i, j) for i in range(left.n) for j in range(left.n) if left.rows[i][j] != rv])
                self.err(e, "comparison on an array")
            for op, rn in zip(e.ops, e.comparators):
                right = self.ev(rn, env)
                if not self.cmp(op, left, right, e):
                    return False
                left = right
            return True
        if isinstance(e, (ast.Tuple, ast.List)):
            vals = [self.ev(x, env) for x in e.elts]
            return tuple(vals) if isinstance(e, ast.Tuple) else vals
        if isinstance(e, ast.Dict):
            return {self.ev(k, env): self.ev(v, env) for k, v in zip(e.keys, e.values)}
        if isinstance(e, ast.JoinedStr):
            return "<f-string>"
        if isinstance(e, ast.Attribute):
            return self.getattr_(self.ev(e.value, env), e.attr, e)
        if isinstance(e, ast.Subscript):
            obj = self.ev(e.value, env)
            key = self.ev(e.slice, env)
            if isinstance(obj, MockArray):
                return obj.get(key)
            if isinstance(obj, dict):
                if key not in obj:
                    raise PyExc("KeyError")
                return obj[key]
            if isinstance(obj, (list, tuple, str)) and isinstance(key, int):
                if not -len(obj) <= key < len(obj):
                    raise PyExc("IndexError")
                return obj[key]
            self.err(e, "subscript on %s" % type(obj).__name__)
        if isinstance(e, ast.GeneratorExp) or isinstance(e, ast.ListComp):
            if len(e.generators) != 1 or e.generators[0].is_async:
                self.err(e, "comprehension shape")
            gen = e.generators[0]
            out = []
            env2 = dict(env)
            for item in self.iterate(self.ev(gen.iter, env), e):
                self.assign(gen.target, item, env2)
                if all(self.truth(self.ev(c, env2), c) for c in gen.ifs):
                    out.append(self.ev(e.elt, env2))
            return out
        if isinstance(e, ast.Call):
            return self.call(e, env)
        self.err(e, "expression %s" % type(e).__name__)

    def binop(self, op, a, b, node):
        if isinstance(a, MockMat) or isinstance(b, MockMat):
            if isinstance(op, ast.Add) and isinstance(a, MockMat) and isinstance(b, MockMat) and a.n == b.n:
                return MockMat(a.n, [[x + y for x, y in zip(ra, rb)] for ra, rb in zip(a.rows, b.rows)])
            self.err(node, "array arithmetic other than elementwise +")
        if isinstance(a, bool) or isinstance(b, bool):
            self.err(node, "arithmetic on bool")
        if isinstance(op, ast.Add) and isinstance(a, str) and isinstance(b, str):
            return a + b
        if not (isinstance(a, int) and isinstance(b, int)):
            self.err(node, "arithmetic on %s, %s" % (type(a).__name__, type(b).__name__))
        if isinstance(op, ast.Add):
            return a + b
        if isinstance(op, ast.Sub):
            return a - b
        if isinstance(op, ast.Mult):
            return a * b
        if isinstance(op, ast.Mod):
            if b == 0:
                raise PyExc("ZeroDivisionError")
            return a % b
        self.err(node, "binary operator %s" % type(op).__name__)

    def cmp(self, op, a, b, node):
        if isinstance(op, (ast.Eq, ast.NotEq)):
            if isinstance(a, EnumMember) or isinstance(b, EnumMember):
                r = a is b
            elif isinstance(a, (MockGraph, MockArray)) or isinstance(b, (MockGraph, MockArray)):
                self.err(node, "== on a graph/array")
            else:
                r = (a == b)
            return r if isinstance(op, ast.Eq) else not r
        if isinstance(op, (ast.Is, ast.IsNot)):
            if not (a is None or b is None):
                self.err(node, "'is' on non-None")
            r = a is b
            return r if isinstance(op, ast.Is) else not r
        if isinstance(op, (ast.In, ast.NotIn)):
            if isinstance(b, (list, tuple)):
                r = any(self.cmp(ast.Eq(), a, x, node) for x in b)
            elif isinstance(b, dict):
                r = a in b
            elif isinstance(b, str) and isinstance(a, str):
                r = a in b
            elif isinstance(b, EnumClass):
                r = any(m is a or m.value == a for m in b.members)
            else:
                self.err(node, "'in' on %s" % type(b).__name__)
            return r if isinstance(op, ast.In) else not r
        if isinstance(a, int) and isinstance(b, int) and not isinstance(a, bool) and not isinstance(b, bool):
            if isinstance(op, ast.Gt):
                return a > b
            if isinstance(op, ast.GtE):
                return a >= b
            if isinstance(op, ast.Lt):
                return a < b
            if isinstance(op, ast.LtE):
                return a <= b
        self.err(node, "comparison %s" % type(op).__name__)

    def getattr_(self, obj, name, node):
        if isinstance(obj, EnumClass):
            return obj.get(name)
        if isinstance(obj, EnumMember):
            if name == "value":
                return obj.value
            self.err(node, "enum attribute %s" % name)
        if isinstance(obj, MockGraph):
            if name in ("has_edge", "add_edge", "neighbors", "get_graphs", "add_node"):
                return ("method", obj, name)
            return obj.attr(name)
        if isinstance(obj, MockLayer):
            if name == "has_edge":
                return ("method", obj, name)
        if isinstance(obj, MockModule):
            if name in obj.attrs:
                return obj.attrs[name]
            self.err(node, "attribute %s.%s" % (obj.name, name))
        if isinstance(obj, str) and name in ("strip", "split"):
            return ("strmethod", obj, name)
        if isinstance(obj, list) and name in ("index", "append"):
            return ("listmethod", obj, name)
        if isinstance(obj, dict) and name in ("items", "keys", "values"):
            return ("dictmethod", obj, name)
        self.err(node, "attribute .%s of %s" % (name, type(obj).__name__))

    def call(self, e, env):
        kwargs = {}
        for kw in e.keywords:
            if kw.arg is None:
                self.err(e, "**kwargs")
            kwargs[kw.arg] = self.ev(kw.value, env)
        if isinstance(e.func, ast.Name) and e.func.id in ("print",):
            return None                                   # output only, no effect on the conversion
        if isinstance(e.func, ast.Name) and e.func.id in ("any", "all", "len", "hasattr", "getattr", "list", "tuple", "dict"):
            args = [self.ev(a, env) for a in e.args]
            f = e.func.id
            if kwargs:
                self.err(e, "keywords to builtin")
            if f in ("any", "all") and len(args) == 1 and isinstance(args[0], (list, tuple)):
                ts = [self.truth(x, e) for x in args[0]]
                return any(ts) if f == "any" else all(ts)
            if f == "dict" and not args:
                return {}
            if f == "len" and len(args) == 1 and isinstance(args[0], (list, tuple, dict, str)):
                return len(args[0])
            if f in ("list", "tuple") and len(args) == 1 and isinstance(args[0], (list, tuple)):
                return list(args[0]) if f == "list" else tuple(args[0])
            if f in ("hasattr", "getattr") and len(args) >= 2 and isinstance(args[0], MockGraph) and isinstance(args[1], str):
                try:
                    v = args[0].attr(args[1])
                    return True if f == "hasattr" else v
                except PyExc:
                    if f == "hasattr":
                        return False
                    if len(args) == 3:
                        return args[2]
                    raise
            self.err(e, "builtin call %s" % f)
        fn = self.ev(e.func, env)
        args = [self.ev(a, env) for a in e.args]
        if isinstance(fn, tuple) and fn[0] == "method":
            _, obj, name = fn
            try:
                return getattr(obj, name)(*args, **kwargs)
            except TypeError:
                self.err(e, "call signature of %s" % name)
        if isinstance(fn, tuple) and fn[0] == "strmethod":
            _, s, name = fn
            if kwargs or len(args) > 1 or any(not isinstance(a, str) for a in args):
                self.err(e, "str.%s arguments" % name)
            return getattr(s, name)(*args)
        if isinstance(fn, tuple) and fn[0] == "listmethod":
            _, l, name = fn
            if kwargs or len(args) != 1:
                self.err(e, "list.%s arguments" % name)
            if name == "append":
                l.append(args[0])
                return None
            for i, x in enumerate(l):
                if self.cmp(ast.Eq(), x, args[0], e):
                    return i
            raise PyExc("ValueError")
        if isinstance(fn, tuple) and fn[0] == "dictmethod":
            _, d, name = fn
            if args or kwargs:
                self.err(e, "dict.%s arguments" % name)
            return [tuple(kv) for kv in d.items()] if name == "items" else list(getattr(d, name)())
        if isinstance(fn, EnumClass):
            if len(args) != 1 or kwargs:
                self.err(e, "enum constructor call")
            return fn.from_value(args[0])
        if isinstance(fn, tuple) and fn[0] == "py":
            return fn[1](*args, **kwargs)
        if isinstance(fn, tuple) and fn[0] == "foreign":
            return fn[1].apply(fn[2], args, kwargs, e)
        if isinstance(fn, ast.FunctionDef):
            return self.apply(fn, args, kwargs, e)
        self.err(e, "call of %s" % type(fn).__name__)

    def apply(self, fd, args, kwargs, node):
        a = fd.args
        if a.vararg or a.kwarg or a.kwonlyargs or a.posonlyargs:
            self.err(node, "signature of %s" % fd.name)
        names = [x.arg for x in a.args]
        env = {}
        defaults = [None] * (len(names) - len(a.defaults)) + list(a.defaults)
        for i, n in enumerate(names):
            if i < len(args):
                env[n] = args[i]
            elif n in kwargs:
                env[n] = kwargs[n]
            elif defaults[i] is not None:
                env[n] = self.ev(defaults[i], {})
            else:
                self.err(node, "missing argument %s of %s" % (n, fd.name))
        try:
            self.block(fd.body, env)
        except _Return as r:
            return r.v
        return None


def _load(t):
    import copy
    t = copy.deepcopy(t)
    for n in ast.walk(t):
        if hasattr(n, "ctx"):
            n.ctx = ast.Load()
    return t


# ------------------------------------------------------------------ reading config.py and the classes
def read_config(repo):
    path = os.path.join(repo, "pywhy_graphs", "config.py")
    tree = ast.parse(open(path).read())
    enums, e2v = {}, None
    for n in tree.body:
        if isinstance(n, ast.Assign) and len(n.targets) == 1 and isinstance(n.targets[0], ast.Name):
            if n.targets[0].id == "EDGE_TO_VALUE_MAPPING":
                if not isinstance(n.value, ast.Dict):
                    raise TranslationError("T:config.py:%d: EDGE_TO_VALUE_MAPPING is not a dict literal" % n.lineno)
                e2v = {}
                for k, v in zip(n.value.keys, n.value.values):
                    if not (isinstance(k, ast.Constant) and isinstance(v, ast.Constant) and isinstance(v.value, int)):
                        raise TranslationError("T:config.py:%d: non-literal mapping entry" % n.lineno)
                    e2v[k.value] = v.value
            if n.targets[0].id == "VALUE_TO_EDGE_MAPPING":
                seg = ast.get_source_segment(open(path).read(), n.value)
                if "".join(seg.split()) != "{val:keyforkey,valinEDGE_TO_VALUE_MAPPING.items()}":
                    raise TranslationError("T:config.py:%d: VALUE_TO_EDGE_MAPPING is not the inverse map" % n.lineno)
        if isinstance(n, ast.ClassDef) and any(isinstance(b, ast.Name) and b.id == "Enum" for b in n.bases):
            mem = []
            for st in n.body:
                if isinstance(st, ast.Assign) and len(st.targets) == 1 and isinstance(st.targets[0], ast.Name):
                    v = st.value
                    if isinstance(v, ast.UnaryOp) and isinstance(v.op, ast.USub) and isinstance(v.operand, ast.Constant):
                        val = -v.operand.value
                    elif isinstance(v, ast.Constant):
                        val = v.value
                    else:
                        raise TranslationError("T:config.py:%d: non-literal enum value" % st.lineno)
                    mem.append((st.targets[0].id, val))
            enums[n.name] = EnumClass(n.name, mem)
    need = ["EdgeType", "TetradEndpoint", "PCAlgPAGEndpoint", "PCAlgCPDAGEndpoint", "CLearnEndpoint"]
    if e2v is None or any(k not in enums for k in need):
        raise TranslationError("T:config.py: EDGE_TO_VALUE_MAPPING or an endpoint enum is missing")
    return enums, e2v


def read_class_layers(repo):
    """edge-type layers of ADMG / CPDAG / PAG from the *_edge_name defaults of their constructors"""
    out = {}
    for cls, fn in (("ADMG", "admg.py"), ("CPDAG", "cpdag.py"), ("PAG", "pag.py")):
        path = os.path.join(repo, "pywhy_graphs", "classes", fn)
        tree = ast.parse(open(path).read())
        cd = [n for n in tree.body if isinstance(n, ast.ClassDef) and n.name == cls]
        if len(cd) != 1:
            raise TranslationError("T:%s: class %s not found" % (fn, cls))
        init = [n for n in cd[0].body if isinstance(n, ast.FunctionDef) and n.name == "__init__"]
        if len(init) != 1:
            raise TranslationError("T:%s: %s.__init__ not found" % (fn, cls))
        a = init[0].args
        names = [x.arg for x in a.args]
        defaults = [None] * (len(names) - len(a.defaults)) + list(a.defaults)
        layers = []
        for n, d in zip(names, defaults):
            if n.endswith("_edge_name"):
                if not (isinstance(d, ast.Constant) and d.value == n[:-len("_edge_name")]):
                    raise TranslationError("T:%s:%d: default of %s" % (fn, init[0].lineno, n))
                layers.append(d.value)
        out[cls] = [t for t in LAYERS if t in layers]
    if out != {"ADMG": ["directed", "bidirected", "undirected"], "CPDAG": ["directed", "undirected"],
               "PAG": ["directed", "bidirected", "undirected", "circle"]}:
        raise TranslationError("T:classes: unexpected edge-type layers %r" % out)
    return out


# ------------------------------------------------------------------ locating loop bodies
def _func(it, name):
    if name not in it.funcs:
        raise TranslationError("T:%s: function %s not found" % (os.path.basename(it.path), name))
    return it.funcs[name]


def _find_for(it, stmts, target_src, iter_src):
    """the unique For statement (searched recursively through With/If bodies, not through other loops)"""
    found = []

    def walk(ss):
        for s in ss:
            if isinstance(s, ast.For):
                if "".join(it.text(s.target).split()) == target_src and "".join(it.text(s.iter).split()) == iter_src:
                    found.append(s)
            elif isinstance(s, ast.With):
                walk(s.body)
            elif isinstance(s, ast.If):
                walk(s.body)
                walk(s.orelse)
    walk(stmts)
    if len(found) != 1:
        raise TranslationError("T:%s: loop 'for %s in %s' not found exactly once" % (os.path.basename(it.path), target_src, iter_src))
    return found[0]


def _has_stmt(it, fd, src):
    want = "".join(src.split())
    if not any("".join((it.text(s) or "").split()) == want for s in ast.walk(fd) if isinstance(s, ast.stmt)):
        raise TranslationError("T:%s:%d: expected statement '%s' in %s" % (os.path.basename(it.path), fd.lineno, src, fd.name))


def _graph_ctor(it, fd, argname, value, layers):
    """run the 'instantiate the type of causal graph' chain; returns the mock graph it builds"""
    chain = [s for s in fd.body if isinstance(s, ast.If) and isinstance(s.test, ast.Compare)
             and isinstance(s.test.left, ast.Name) and s.test.left.id == argname and isinstance(s.test.ops[0], ast.Eq)]
    if not chain:
        raise TranslationError("T:%s:%d: graph construction chain on %s not found" % (os.path.basename(it.path), fd.lineno, argname))

    def mk(cls):
        return ("py", lambda: MockGraph(cls, layers[cls]))
    pg = MockModule("pywhy_graphs", {c: mk(c) for c in layers})
    env = {argname: value}
    it.globs["pywhy_graphs"] = pg
    it.block([chain[0]], env)
    g = env.get("graph", env.get("G"))
    if not isinstance(g, MockGraph):
        raise TranslationError("T:%s:%d: no graph constructed for %s=%r" % (os.path.basename(it.path), fd.lineno, argname, value))
    return g


def _ops(g, names=(0, 1)):
    out = []
    for op in g.ops:
        if op[0] == "node":
            continue
        a, b, t = op
        if (a, b) == tuple(names):
            out.append((0, LAYERS.index(t)))
        elif (b, a) == tuple(names):
            out.append((1, LAYERS.index(t)))
        else:
            raise TranslationError("add_edge on nodes outside the pair: %r" % (op,))
    return out


def _run(it, body, env):
    """-> (kind, lines) kind in 'ok' | 'skip' | ('raise', name)"""
    it.trace = []
    try:
        it.block(body, env)
        kind = "ok"
    except _Continue:
        kind = "skip"
    except PyExc as e:
        kind = ("raise", e.name)
    return kind, sorted(set(it.trace))


# ------------------------------------------------------------------ the tables
def translate(repo):
    enums, e2v = read_config(repo)
    layers = read_class_layers(repo)
    exp = os.path.join(repo, "pywhy_graphs", "export")
    base = dict(enums)
    base["EDGE_TO_VALUE_MAPPING"] = dict(e2v)
    base["VALUE_TO_EDGE_MAPPING"] = {v: k for k, v in e2v.items()}
    base["np"] = MockModule("np", {"mod": ("py", lambda a, b: a % b)})
    T = {"enums": {k: [(m.name, m.value) for m in v.members] for k, v in enums.items()}, "e2v": e2v, "layers": layers,
         "sha": {}}
    CL = enums["CLearnEndpoint"]
    cl_vals = sorted(m.value for m in CL.members)
    if cl_vals != list(range(-1, 7)):
        raise TranslationError("T:config.py: CLearnEndpoint values are not -1..6")

    # ---- causal-learn
    it = Interp(os.path.join(exp, "causallearn.py"), base)
    T["sha"]["causallearn.py"] = hashlib.sha1(it.src.encode()).hexdigest()[:12]
    fit = Interp(os.path.join(repo, "pywhy_graphs", "classes", "functions.py"), base)
    it.globs["edge_types"] = ("foreign", fit, _func(fit, "edge_types"))
    fd = _func(it, "graph_to_clearn")
    outer = _find_for(it, fd.body, "u", "G.nodes")
    inner = _find_for(it, outer.body, "v", "G.nodes")
    _has_stmt(it, fd, "arr_idx = list(G.nodes)")
    T["enc_clearn"] = {}
    for cls in layers:
        rows = []
        for k in range(64):
            if any(bits_of(k)[b] and lay not in layers[cls] for b, lay in
                   (("dir_uv", "directed"), ("dir_vu", "directed"), ("cir_uv", "circle"), ("cir_vu", "circle"),
                    ("bid", "bidirected"), ("und", "undirected"))):
                rows.append(("na", None, []))
                continue
            G = MockGraph(cls, layers[cls], k)
            arr = MockArray({(0, 1): 0, (1, 0): 0})
            env = {"G": G, "u": 0, "v": 1, "arr": arr, "arr_idx": [0, 1], "endpoint_u": STALE, "endpoint_v": STALE}
            kind, lines = _run(it, inner.body, env)
            if kind == "ok":
                rows.append(("pair", (arr.d[(0, 1)], arr.d[(1, 0)]), lines))
            elif kind == "skip":
                rows.append(("skip", None, lines))
            elif kind == ("raise", "UnboundLocalError"):
                rows.append(("stale", None, lines))
            else:
                rows.append(("raise", kind[1], lines))
        T["enc_clearn"][cls] = rows

    fd = _func(it, "clearn_to_graph")
    outer = _find_for(it, fd.body, "udx", "range(n_nodes)")
    inner = _find_for(it, outer.body, "vdx", "range(n_nodes)")
    T["dec_clearn"] = {}
    for cls in layers:
        rows = []
        for x in cl_vals:
            for y in cl_vals:
                g = _graph_ctor(it, fd, "graph_type", cls.lower(), layers)
                if g.cls != cls:
                    raise TranslationError("T:causallearn.py: graph_type %s builds %s" % (cls.lower(), g.cls))
                env = {"graph": g, "arr": MockArray({(0, 1): x, (1, 0): y}), "arr_idx": [0, 1], "udx": 0, "vdx": 1}
                kind, lines = _run(it, inner.body, env)
                rows.append(("ops", _ops(g), lines) if kind in ("ok", "skip") else ("raise", kind[1], lines))
        T["dec_clearn"][cls] = rows

    # ---- pcalg
    it = Interp(os.path.join(exp, "pcalg.py"), base)
    T["sha"]["pcalg.py"] = hashlib.sha1(it.src.encode()).hexdigest()[:12]
    fd = _func(it, "graph_to_pcalg")
    loop = _find_for(it, fd.body, "idx,jdx", "np.argwhere(clearn_arr!=0)")
    _has_stmt(it, fd, "clearn_arr, _ = graph_to_clearn(causal_graph)")
    _has_stmt(it, fd, "clearn_arr = clearn_arr.T")
    _has_stmt(it, fd, "return clearn_arr")
    T["remap_pcalg"] = {}
    for cls in ("CPDAG", "PAG"):
        rows = []
        for x in cl_vals:
            for y in cl_vals:
                arr = MockArray({(0, 1): x, (1, 0): y})
                env = {"clearn_arr": arr, "idx": 0, "jdx": 1, "seen_idx": {}, "amat_type": cls.lower()}
                kind, lines = _run(it, loop.body, env)
                rows.append(("pair", (arr.d[(0, 1)], arr.d[(1, 0)]), lines) if kind == "ok" else
                            ("skip", None, lines) if kind == "skip" else ("raise", kind[1], lines))
        T["remap_pcalg"][cls] = rows
    fd = _func(it, "pcalg_to_graph")
    loop = _find_for(it, fd.body, "idx,jdx", "np.argwhere(arr!=0)")
    T["dec_pcalg"] = {}
    for cls in ("CPDAG", "PAG"):
        rows = []
        for x in range(4):
            for y in range(4):
                g = _graph_ctor(it, fd, "amat_type", cls.lower(), layers)
                if g.cls != cls:
                    raise TranslationError("T:pcalg.py: amat_type %s builds %s" % (cls.lower(), g.cls))
                env = {"graph": g, "arr": MockArray({(0, 1): x, (1, 0): y}), "arr_idx": [0, 1], "idx": 0, "jdx": 1,
                       "memo_map": {}, "amat_type": cls.lower()}
                kind, lines = _run(it, loop.body, env)
                rows.append(("ops", _ops(g), lines) if kind in ("ok", "skip") else ("raise", kind[1], lines))
        T["dec_pcalg"][cls] = rows

    # ---- numpy (decoder only: the encoder is array arithmetic, no per-pair chain)
    it = Interp(os.path.join(exp, "numpy.py"), base)
    T["sha"]["numpy.py"] = hashlib.sha1(it.src.encode()).hexdigest()[:12]
    # encoder: the whole function is evaluated on the two-node graph; numpy / networkx are the elementwise mocks below
    def _zeros(shape):
        if not (isinstance(shape, tuple) and len(shape) == 2 and shape[0] == shape[1] and isinstance(shape[0], int)):
            raise TranslationError("T:numpy.py: np.zeros shape")
        return MockMat(shape[0])

    def _to_numpy_array(graph, nodelist=None, weight="weight"):
        # the mock graph's edges are unweighted: weight="weight" (default 1 per edge) and weight=None give the same array
        if weight not in ("weight", None):
            raise TranslationError("T:numpy.py: nx.to_numpy_array weight=%r" % (weight,))
        if not isinstance(graph, MockLayer) or nodelist != graph.g.nodes_:
            raise TranslationError("T:numpy.py: nx.to_numpy_array must be called on a layer with nodelist=<the graph's node list>")
        return MockMat(len(nodelist), [[1 if (a != b and graph.has_edge(a, b)) else 0 for b in nodelist] for a in nodelist])
    it.globs["np"] = MockModule("np", {"mod": ("py", lambda a, b: a % b), "zeros": ("py", _zeros)})
    it.globs["nx"] = MockModule("nx", {"to_numpy_array": ("py", _to_numpy_array)})
    fd = _func(it, "graph_to_numpy")
    T["enc_numpy"] = {}
    for cls in layers:
        rows = []
        for k in range(64):
            if T["enc_clearn"][cls][k][0] == "na":
                rows.append(("na", None, []))
                continue
            it.trace = []
            try:
                res = it.apply(fd, [MockGraph(cls, layers[cls], k)], {}, fd)
            except PyExc as e:
                rows.append(("raise", e.name, sorted(set(it.trace))))
                continue
            if not (isinstance(res, MockMat) and res.n == 2 and res.rows[0][0] == 0 and res.rows[1][1] == 0):
                raise TranslationError("T:numpy.py: graph_to_numpy does not return the 2x2 zero-diagonal array")
            rows.append(("pair", (res.rows[0][1], res.rows[1][0]), sorted(set(it.trace))))
        T["enc_numpy"][cls] = rows

    fd = _func(it, "numpy_to_graph")
    loop = _find_for(it, fd.body, "idx,jdx", "np.argwhere(arr!=0)")
    T["dec_numpy"] = {}
    for cls in layers:
        rows = []
        for val in range(34):
            g = _graph_ctor(it, fd, "graph_type", cls.lower(), layers)
            if g.cls != cls:
                raise TranslationError("T:numpy.py: graph_type %s builds %s" % (cls.lower(), g.cls))
            env = {"graph": g, "arr": MockArray({(0, 1): val}), "arr_idx": [0, 1], "idx": 0, "jdx": 1}
            kind, lines = _run(it, loop.body, env)
            rows.append(("ops", _ops(g), lines) if kind in ("ok", "skip") else ("raise", kind[1], lines))
        T["dec_numpy"][cls] = rows

    # ---- tetrad
    it = Interp(os.path.join(exp, "tetrad.py"), base)
    T["sha"]["tetrad.py"] = hashlib.sha1(it.src.encode()).hexdigest()[:12]
    fd = _func(it, "graph_to_tetrad")
    outer = _find_for(it, fd.body, "idx,node", "enumerate(G.nodes)")
    inner = _find_for(it, outer.body, "nbr", "nbrs")
    _has_stmt(it, fd, "nbrs = G.neighbors(node)")
    T["enc_tetrad"] = {}
    for cls in layers:
        rows = []
        for k in range(64):
            if T["enc_clearn"][cls][k][0] == "na":
                rows.append(("na", None, []))
                continue
            G = MockGraph(cls, layers[cls], k)
            ged = {0: {}}
            env = {"G": G, "node": 0, "nbr": 1, "graph_edge_dict": ged, "node_nbr_str": "\x00STALE"}
            if not any(bits_of(k).values()):
                rows.append(("skip", None, []))       # nbr is not a neighbour: the body is not entered
                continue
            kind, lines = _run(it, inner.body, env)
            if kind == "ok":
                s3 = ged[0].get(1)
                if s3 == "\x00STALE":
                    rows.append(("stale", None, lines))
                elif isinstance(s3, str):
                    rows.append(("str", s3, lines))
                else:
                    raise TranslationError("T:tetrad.py: edge string not stored in graph_edge_dict[node][nbr]")
            elif kind == "skip":
                rows.append(("skip", None, lines))
            else:
                rows.append(("raise", kind[1], lines))
        T["enc_tetrad"][cls] = rows
    fd = _func(it, "tetrad_to_graph")
    loop = _find_for(it, fd.body, "line", "file.readlines()")
    T["dec_tetrad"] = {}
    for cls in layers:
        rows = []
        for c1 in "<-o":
            for c3 in ">-o":
                g = _graph_ctor(it, fd, "graph_type", cls.lower(), layers)
                g.nodes_ = ["a", "b"]
                env = {"G": g, "line": "1. a %s-%s b\n" % (c1, c3), "next_nodes_line": False}
                kind, lines = _run(it, loop.body, env)
                rows.append(("ops", _ops(g, ("a", "b")), lines) if kind in ("ok", "skip") else ("raise", kind[1], lines))
        T["dec_tetrad"][cls] = rows

    # ---- file handles: reader and writer must open the file the same way (text mode, same encoding / newline / errors)
    def _open_call(fname):
        calls = [n for n in ast.walk(_func(it, fname)) if isinstance(n, ast.Call) and isinstance(n.func, ast.Name) and n.func.id == "open"]
        if len(calls) != 1:
            raise TranslationError("T:tetrad.py: %s must contain exactly one open() call" % fname)
        c = calls[0]
        if len(c.args) != 2 or not isinstance(c.args[1], ast.Constant) or it.text(c.args[0]) != "filename":
            raise TranslationError("T:tetrad.py:%d: open() of %s is not open(filename, <mode literal>)" % (c.lineno, fname))
        kws = {}
        for kw in c.keywords:
            if kw.arg != "encoding" or not isinstance(kw.value, ast.Constant):
                raise TranslationError("T:tetrad.py:%d: open() keyword %s in %s" % (c.lineno, kw.arg, fname))
            kws[kw.arg] = kw.value.value
        return c.args[1].value, kws, c.lineno
    rmode, rkw, rline = _open_call("tetrad_to_graph")
    wmode, wkw, wline = _open_call("graph_to_tetrad")
    if rmode != "r" or wmode != "w" or rkw != wkw:
        raise TranslationError("T:tetrad.py:%d/%d: reader open(%r, %r) and writer open(%r, %r) do not agree"
                               % (rline, wline, rmode, rkw, wmode, wkw))
    T["tetrad_open"] = {"reader": [rmode, rkw], "writer": [wmode, wkw]}

    # ---- the label grammar of tetrad_to_graph: whole little files are fed line by line through the translated loop
    # body (node-line branch included, so an unsupported construct there fails closed too); a character / label is
    # 'free' if labels containing it come back as exactly the nodes and the edge that were written
    import string

    def _file_ok(labels, edge):
        g = _graph_ctor(it, fd, "graph_type", "pag", layers)
        env = {"G": g, "next_nodes_line": False}
        text = ["Graph Nodes:", ";".join(labels), "", "Graph Edges:", "1. %s --> %s" % edge, ""]
        for ln in text:
            env["line"] = ln + "\n"
            kind, _ = _run(it, loop.body, env)
            if kind not in ("ok", "skip"):
                return False
        nodes = [op[1] for op in g.ops if op[0] == "node"]
        edges = [op for op in g.ops if op[0] != "node"]
        return nodes == list(labels) and edges == [(edge[0], edge[1], "directed")]

    def _label_free(lab):
        return (_file_ok([lab, "z"], (lab, "z")) and _file_ok(["z", lab], ("z", lab)) and
                _file_ok(["y", lab, "z"], ("y", "z")))
    if not _label_free("abc"):
        raise TranslationError("T:tetrad.py: the translated parser does not read back a plain three-line file")
    reserved = [c for c in string.punctuation + " "
                if not all(_label_free(l) for l in (c, c + "b", "a" + c, "a" + c + "b"))]
    specials = ["007", "-->", "<--", "o-o", "<->", "---", "1.", "2.", "Nodes:", "Edges:", "Graph", ".", ":"]
    T["tetrad_grammar"] = {"reserved_chars": reserved, "bad_specials": [l for l in specials if not _label_free(l)]}
    return T


# ------------------------------------------------------------------ emission
def _z(v):
    return "(%d)" % v if v < 0 else "%d" % v


def _lines(ls):
    return "L" + ",".join(str(x) for x in ls) if ls else "-"


def _enc_row(r):
    kind, val, ls = r
    if kind == "pair":
        return "EPair %s %s" % (_z(val[0]), _z(val[1]))
    return {"na": "ENA", "skip": "ESkip", "stale": "EStale", "raise": "ERaise"}[kind]


def _dec_row(r):
    kind, val, ls = r
    if kind == "raise":
        return "DRaise"
    return "DOps [" + "; ".join("Add %s %d" % ("true" if rev else "false", lay) for rev, lay in val) + "]"


def _str_row(r):
    kind, val, ls = r
    if kind == "str":
        return "SStr [" + "; ".join("%d%%nat" % ord(ch) for ch in val) + "]"
    return {"na": "SNA", "skip": "SSkip", "stale": "SStale", "raise": "SRaise"}[kind]


def _table(name, cls_rows, rowf, typ, src, index_doc):
    out = ["(* %s  — index: %s *)" % (src, index_doc)]
    for cls, rows in cls_rows.items():
        out.append("Definition %s_%s : list %s := [" % (name, cls.lower(), typ))
        body = []
        for i, r in enumerate(rows):
            extra = (" raises " + r[1]) if r[0] == "raise" else ""
            body.append("  %s%s (* %d: %s%s *)" % (rowf(r), ";" if i + 1 < len(rows) else " ", i, _lines(r[2]), extra))
        out.extend(body)
        out.append("].")
    return "\n".join(out)


def emit(T, repo_label):
    hdr = "(* GENERATED by /verif/translator/codecs.py from %s — do not edit; rewritten on every ./check C14 *)\n" % repo_label
    en = [hdr, "From Coq Require Import List ZArith.", "Import ListNotations.", "Open Scope Z_scope.", ""]
    for k, v in T["e2v"].items():
        en.append("Definition e2v_%s : Z := %s.   (* EDGE_TO_VALUE_MAPPING[%r] *)" % ("none" if k is None else k, _z(v), k))
    for cname, mem in T["enums"].items():
        if cname not in ("TetradEndpoint", "PCAlgPAGEndpoint", "PCAlgCPDAGEndpoint", "CLearnEndpoint"):
            continue
        for name, val in mem:
            if isinstance(val, int):
                en.append("Definition %s_%s : Z := %s." % (cname, name, _z(val)))
            else:
                en.append("Definition %s_%s : list nat := [%s]%%nat.   (* %r *)"
                          % (cname, name, "; ".join(str(ord(ch)) for ch in val), val))
    enums_v = "\n".join(en) + "\n"
    co = [hdr, "(* sources: " + ", ".join("%s sha1 %s" % kv for kv in sorted(T["sha"].items())) + " *)",
          "From Coq Require Import List ZArith Bool.", "From PG Require Import C14.Defs.", "Import ListNotations.",
          "Open Scope Z_scope.", ""]
    psdoc = "ps_index = dir_uv + 2 dir_vu + 4 cir_uv + 8 cir_vu + 16 bid + 32 und (u = outer loop node)"
    co.append(_table("gen_enc_clearn", T["enc_clearn"], _enc_row, "enc_out",
                     "graph_to_clearn, body of 'for v in G.nodes': (arr[u,v], arr[v,u])", psdoc))
    co.append(_table("gen_dec_clearn", T["dec_clearn"], _dec_row, "dec_out",
                     "clearn_to_graph, body of 'for vdx in range(n_nodes)'", "(arr[u,v]+1)*8 + (arr[v,u]+1)"))
    co.append(_table("gen_remap_pcalg", T["remap_pcalg"], _enc_row, "enc_out",
                     "graph_to_pcalg, body of the argwhere loop on the transposed causal-learn array: new (a[i,j], a[j,i])",
                     "(t[i,j]+1)*8 + (t[j,i]+1)"))
    co.append(_table("gen_dec_pcalg", T["dec_pcalg"], _dec_row, "dec_out",
                     "pcalg_to_graph, body of the argwhere loop", "arr[i,j]*4 + arr[j,i]"))
    co.append(_table("gen_enc_numpy", T["enc_numpy"], _enc_row, "enc_out",
                     "graph_to_numpy, whole function on the two-node graph [u, v]: (arr[u,v], arr[v,u])", psdoc))
    co.append(_table("gen_dec_numpy", T["dec_numpy"], _dec_row, "dec_out",
                     "numpy_to_graph, body of the argwhere loop (one cell)", "arr[i,j] in 0..33"))
    co.append(_table("gen_enc_tetrad", T["enc_tetrad"], _str_row, "str_out",
                     "graph_to_tetrad, body of 'for nbr in nbrs' (node = u)", psdoc))
    co.append(_table("gen_dec_tetrad", T["dec_tetrad"], _dec_row, "dec_out",
                     "tetrad_to_graph, body of 'for line in file.readlines()' on an edge line 'k. a XYZ b'",
                     "3*i(X) + i(Z), X in '<-o', Z in '>-o'"))
    return enums_v, "\n\n".join(co) + "\n"


def write_if_changed(path, text):
    old = open(path).read() if os.path.exists(path) else None
    if old != text:
        os.makedirs(os.path.dirname(path), exist_ok=True)
        with open(path + ".tmp", "w") as f:
            f.write(text)
        os.replace(path + ".tmp", path)      # atomic: a concurrent coqc never sees a half-written file
        return True
    return False


def regenerate(repo, coq_dir="/verif/coq"):
    """-> (tables, [changed files]); raises TranslationError (fail closed)"""
    T = translate(repo)
    enums_v, codecs_v = emit(T, "$VERIF_REPO/pywhy_graphs/{config.py,export/*.py,classes/*.py}")
    ch = []
    for name, text in (("Gen_Enums.v", enums_v), ("Gen_Codecs.v", codecs_v)):
        if write_if_changed(os.path.join(coq_dir, "theories", "Gen", name), text):
            ch.append(name)
    return T, ch


if __name__ == "__main__":
    import sys
    T, ch = regenerate(sys.argv[1] if len(sys.argv) > 1 else "/repo")
    print("regenerated:", ch or "nothing changed")
