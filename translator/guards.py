#!/usr/bin/env python3
"""Tie (T) of property C03: fail-closed Python-ast -> Gallina translator for the pair-local decision tables.

Reads (from $VERIF_REPO, default /repo):
  pywhy_graphs/config.py                     EdgeType (member -> value string)
  pywhy_graphs/algorithms/generic.py         _check_adding_pag_edge, _check_adding_cpdag_edge, is_valid_mec_graph
  pywhy_graphs/classes/pag.py, cpdag.py, timeseries/pag.py, timeseries/cpdag.py, augmented.py
                                             orient_uncertain_edge, add_edge / add_edges_from wrappers
Writes (only if the text changed):
  /verif/coq/theories/Gen/Gen_Guards.v       guard_pag, guard_cpdag : pstate -> dir -> etype -> bool (true = raises)
                                             + the wrapper shape record of the five classes
  /verif/coq/theories/Gen/Gen_Orient.v       orient_{pag,cpdag,tspag,tscpdag} : bool -> pstate -> dir -> pstate * bool

Accepted Python (anything else is a TranslationError naming file:line, and nothing is written):
  guards : docstring, `x = True|False`, if/elif/else, `raise`, bare `return`; conditions built from and/or/not,
           `edge_type ==|!= EdgeType.X.value | "literal"`, `graph.has_edge(a, b[, graph.<layer>_edge_name])` with {a,b} = {u,v},
           boolean locals, True/False
  orient : the same conditions on `self`, plus the statements `self.remove_edge(a, b, <layer>)`, `self.add_edge(a, b, <layer>)`
           and the time-series idiom `u, v = sorted([u, v], key=lambda x: x[1])` (becomes the parameter `lagswap`)
  wrappers: only the statement shapes listed in `wrapper_shape` (guard call then delegation; bulk variants)
Every emitted branch carries the source line as a Coq comment.  CLI: `python3 /verif/translator/guards.py` regenerates.
"""
import ast
import os
import sys

VERIF = "/verif"
GEN_DIR = os.path.join(VERIF, "coq", "theories", "Gen")

LAYER_ATTRS = {
    "directed_edge_name": "LDir", "_directed_name": "LDir",
    "undirected_edge_name": "LUnd", "_undirected_name": "LUnd",
    "bidirected_edge_name": "LBid", "_bidirected_name": "LBid",
    "circle_edge_name": "LCir", "_circle_name": "LCir",
}
LAYER_OF_VALUE = {"directed": "LDir", "bidirected": "LBid", "undirected": "LUnd", "circle": "LCir"}
ETYPE_OF_VALUE = {"directed": "EDir", "bidirected": "EBid", "undirected": "EUnd", "circle": "ECir", "all": "EAll"}
ETYPE_OF_LAYER = {"LDir": "EDir", "LBid": "EBid", "LUnd": "EUnd", "LCir": "ECir"}
GUARD_FUNCS = {"_check_adding_pag_edge": "GPag", "_check_adding_cpdag_edge": "GCpdag"}
GUARD_LOCAL = {"GPag": "guard_pag_local", "GCpdag": "guard_cpdag_local"}
# base classes whose add_edge / add_edges_from are known to be unguarded pass-throughs to the layers
UNGUARDED_BASES = {"StationaryTimeSeriesMixedEdgeGraph", "TimeSeriesMixedEdgeGraph", "MixedEdgeGraph", "ADMG",
                   "AncestralMixin", "ConservativeMixin", "AugmentedNodeMixin"}


class TranslationError(Exception):
    def __init__(self, rel, line, msg):
        super().__init__("T:%s:%s %s" % (rel, line, msg))
        self.rel, self.line, self.msg = rel, line, msg


class Src:
    def __init__(self, repo, rel):
        self.rel = rel
        path = os.path.join(repo, rel)
        try:
            self.text = open(path).read()
        except OSError as e:
            raise TranslationError(rel, 0, "cannot read: %s" % e)
        try:
            self.tree = ast.parse(self.text)
        except SyntaxError as e:
            raise TranslationError(rel, e.lineno or 0, "syntax error")

    def err(self, node, msg):
        return TranslationError(self.rel, getattr(node, "lineno", 0), msg + ": " + ast.dump(node)[:120] if node is not None else msg)

    def func(self, name):
        for n in self.tree.body:
            if isinstance(n, ast.FunctionDef) and n.name == name:
                return n
        raise TranslationError(self.rel, 0, "function %s not found" % name)

    def cls(self, name):
        for n in self.tree.body:
            if isinstance(n, ast.ClassDef) and n.name == name:
                return n
        raise TranslationError(self.rel, 0, "class %s not found" % name)

    @staticmethod
    def method(cls, name):
        found = [n for n in cls.body if isinstance(n, ast.FunctionDef) and n.name == name]
        if len(found) > 1:
            raise TranslationError("?", found[1].lineno, "method %s defined twice" % name)
        return found[0] if found else None


def read_edgetype(repo):
    src = Src(repo, "pywhy_graphs/config.py")
    cls = src.cls("EdgeType")
    members = {}
    for n in cls.body:
        if isinstance(n, ast.Assign) and len(n.targets) == 1 and isinstance(n.targets[0], ast.Name):
            if not (isinstance(n.value, ast.Constant) and isinstance(n.value.value, str)):
                raise src.err(n, "EdgeType member is not a string literal")
            if n.value.value not in ETYPE_OF_VALUE:
                raise src.err(n, "EdgeType value %r is not one of the five known edge-type strings" % n.value.value)
            members[n.targets[0].id] = n.value.value
        elif isinstance(n, ast.Expr) and isinstance(n.value, ast.Constant):
            continue
        else:
            raise src.err(n, "unsupported statement in EdgeType")
    if sorted(members.values()) != sorted(ETYPE_OF_VALUE):
        raise TranslationError(src.rel, cls.lineno, "EdgeType values are %r, expected exactly %r" % (sorted(members.values()), sorted(ETYPE_OF_VALUE)))
    return members


# ------------------------------------------------------------------ expressions
class Ctx:
    """translation context of one function body"""
    def __init__(self, src, edgetype, gvar, uname, vname, etvar, anyfn):
        self.src, self.edgetype = src, edgetype
        self.gvar, self.uname, self.vname, self.etvar, self.anyfn = gvar, uname, vname, etvar, anyfn
        self.boolvars = set()
        self.perm = None        # None: (u,v) as passed; "lagswap": exchanged iff the Gallina variable lagswap is true

    def copy(self):
        c = Ctx(self.src, self.edgetype, self.gvar, self.uname, self.vname, self.etvar, self.anyfn)
        c.boolvars = set(self.boolvars)
        c.perm = self.perm
        return c

    def edge_value(self, node):
        """EdgeType.X.value or a string literal -> the value string"""
        if isinstance(node, ast.Constant) and isinstance(node.value, str):
            return node.value
        if (isinstance(node, ast.Attribute) and node.attr == "value" and isinstance(node.value, ast.Attribute)
                and isinstance(node.value.value, ast.Name) and node.value.value.id == "EdgeType"):
            if node.value.attr not in self.edgetype:
                raise self.src.err(node, "unknown EdgeType member")
            return self.edgetype[node.value.attr]
        return None

    def layer(self, node):
        if isinstance(node, ast.Attribute) and isinstance(node.value, ast.Name) and node.value.id == self.gvar:
            if node.attr in LAYER_ATTRS:
                return LAYER_ATTRS[node.attr]
            raise self.src.err(node, "unknown edge-name attribute")
        val = self.edge_value(node)
        if val is not None:
            if val in LAYER_OF_VALUE:
                return LAYER_OF_VALUE[val]
            raise self.src.err(node, "edge-type value %r is not a layer" % val)
        raise self.src.err(node, "unsupported layer expression")

    def sw(self, a, b):
        """Gallina bool: is the call's (a, b) the local pair exchanged?"""
        for x in (a, b):
            if not (isinstance(x, ast.Name) and x.id in (self.uname, self.vname)):
                raise self.src.err(x, "edge endpoint is not one of the two argument nodes")
        if a.id == b.id:
            raise self.src.err(a, "edge endpoints are the same argument")
        base = a.id == self.vname
        if self.perm is None:
            return "true" if base else "false"
        return "(negb lagswap)" if base else "lagswap"

    def edge_call(self, node, meth):
        """self.<meth>(a, b[, layer]) -> (sw, layer-or-None)"""
        if not (isinstance(node, ast.Call) and isinstance(node.func, ast.Attribute) and node.func.attr == meth
                and isinstance(node.func.value, ast.Name) and node.func.value.id == self.gvar):
            return None
        args = list(node.args)
        kw = {k.arg: k.value for k in node.keywords}
        if None in kw or set(kw) - {"edge_type"} or len(args) not in (2, 3) or (len(args) == 3 and kw):
            raise self.src.err(node, "unsupported arguments of %s" % meth)
        lay = args[2] if len(args) == 3 else kw.get("edge_type")
        return self.sw(args[0], args[1]), (self.layer(lay) if lay is not None else None)

    def cond(self, e):
        if isinstance(e, ast.BoolOp):
            op = " || " if isinstance(e.op, ast.Or) else " && "
            return "(" + op.join(self.cond(v) for v in e.values) + ")"
        if isinstance(e, ast.UnaryOp) and isinstance(e.op, ast.Not):
            return "(negb %s)" % self.cond(e.operand)
        if isinstance(e, ast.Constant) and isinstance(e.value, bool):
            return "true" if e.value else "false"
        if isinstance(e, ast.Name) and e.id in self.boolvars:
            return e.id
        if isinstance(e, ast.Compare) and len(e.ops) == 1 and isinstance(e.ops[0], (ast.Eq, ast.NotEq)):
            l, r = e.left, e.comparators[0]
            if not (isinstance(l, ast.Name) and l.id == self.etvar):
                l, r = r, l
            if not (isinstance(l, ast.Name) and self.etvar is not None and l.id == self.etvar):
                raise self.src.err(e, "comparison is not on the edge_type argument")
            val = self.edge_value(r)
            if val is None or val not in ETYPE_OF_VALUE:
                raise self.src.err(e, "edge_type compared with something that is not an EdgeType value")
            t = "(etype_eqb et %s)" % ETYPE_OF_VALUE[val]
            return t if isinstance(e.ops[0], ast.Eq) else "(negb %s)" % t
        ec = self.edge_call(e, "has_edge")
        if ec is not None:
            sw, lay = ec
            return "(%s s %s)" % (self.anyfn, sw) if lay is None else "(has s %s %s)" % (sw, lay)
        raise self.src.err(e, "unsupported condition")


def is_docstring(st):
    return isinstance(st, ast.Expr) and isinstance(st.value, ast.Constant) and isinstance(st.value.value, str)


# ------------------------------------------------------------------ guards
def tr_guard(ctx, stmts, ind):
    """Gallina bool expression: does executing stmts raise?"""
    pad = "  " * ind
    if not stmts:
        return pad + "false"
    st, rest = stmts[0], stmts[1:]
    ln = "(* L%d *)" % st.lineno
    if is_docstring(st):
        return tr_guard(ctx, rest, ind)
    if isinstance(st, ast.Assign):
        if not (len(st.targets) == 1 and isinstance(st.targets[0], ast.Name) and isinstance(st.value, ast.Constant)
                and isinstance(st.value.value, bool)):
            raise ctx.src.err(st, "unsupported assignment")
        name = st.targets[0].id
        if name in (ctx.gvar, ctx.uname, ctx.vname, ctx.etvar, "s", "et", "lagswap"):
            raise ctx.src.err(st, "assignment to an argument")
        c2 = ctx.copy()
        c2.boolvars.add(name)
        return "%slet %s := %s in %s\n%s" % (pad, name, "true" if st.value.value else "false", ln, tr_guard(c2, rest, ind))
    if isinstance(st, ast.If):
        return "%sif %s %s then\n%s\n%selse\n%s" % (pad, ctx.cond(st.test), ln, tr_guard(ctx, st.body + rest, ind + 1), pad,
                                                     tr_guard(ctx, st.orelse + rest, ind + 1))
    if isinstance(st, ast.Raise):
        return "%strue %s" % (pad, ln)
    if isinstance(st, ast.Return) and st.value is None:
        return "%sfalse %s" % (pad, ln)
    raise ctx.src.err(st, "unsupported statement in a guard")


def guard_def(repo, edgetype, fname, coqname, anyfn):
    src = Src(repo, "pywhy_graphs/algorithms/generic.py")
    fn = src.func(fname)
    a = fn.args
    names = [x.arg for x in a.args]
    if names != ["graph", "u_of_edge", "v_of_edge", "edge_type"] or a.vararg or a.kwarg or a.kwonlyargs or a.defaults:
        raise src.err(fn, "unexpected signature of %s" % fname)
    ctx = Ctx(src, edgetype, "graph", "u_of_edge", "v_of_edge", "edge_type", anyfn)
    body = tr_guard(ctx, fn.body, 1)
    return ("(* %s  %s L%d-%d ; true = the call raises ; s is the pair state seen from (u_of_edge, v_of_edge) *)\n"
            "Definition %s_local (s : pstate) (et : etype) : bool :=\n%s.\n"
            "Definition %s (s : pstate) (d : dir) (et : etype) : bool := %s_local (view s d) et.\n"
            % (fname, src.rel, fn.lineno, fn.end_lineno, coqname, body, coqname, coqname))


def mec_def(repo):
    """is_valid_mec_graph: which guard is re-applied to the stored edges of which class (checked shape, emitted as a table)"""
    src = Src(repo, "pywhy_graphs/algorithms/generic.py")
    fn = src.func("is_valid_mec_graph")
    body = [st for st in fn.body if not is_docstring(st)]
    if len(body) != 3 or not isinstance(body[0], ast.If) or not isinstance(body[1], ast.For) or not isinstance(body[2], ast.Return):
        raise src.err(fn, "is_valid_mec_graph: expected `if isinstance.. elif..`, one for loop, `return True`")
    table = {}

    def classes_of(test):
        out = []
        parts = test.values if isinstance(test, ast.BoolOp) and isinstance(test.op, ast.Or) else [test]
        for p in parts:
            if not (isinstance(p, ast.Call) and isinstance(p.func, ast.Name) and p.func.id == "isinstance" and len(p.args) == 2
                    and isinstance(p.args[0], ast.Name) and p.args[0].id == "G" and isinstance(p.args[1], ast.Name)):
                raise src.err(p, "is_valid_mec_graph: unsupported class test")
            out.append(p.args[1].id)
        return out

    node = body[0]
    while True:
        if not (len(node.body) == 1 and isinstance(node.body[0], ast.Assign) and isinstance(node.body[0].value, ast.Name)
                and node.body[0].value.id in GUARD_FUNCS and node.body[0].targets[0].id == "check_func"):
            raise src.err(node, "is_valid_mec_graph: branch does not select a guard")
        for c in classes_of(node.test):
            table.setdefault(c, GUARD_FUNCS[node.body[0].value.id])   # first matching branch wins
        if len(node.orelse) == 1 and isinstance(node.orelse[0], ast.If):
            node = node.orelse[0]
        elif not node.orelse:
            break
        else:
            raise src.err(node, "is_valid_mec_graph: unsupported else branch")
    loop = body[1]
    ok = (ast.dump(loop.target) == ast.dump(ast.parse("edge_type, edgeview", mode="eval").body).replace("Load", "Store")
          and ast.dump(loop.iter) == ast.dump(ast.parse("G.edges().items()", mode="eval").body)
          and len(loop.body) == 1 and isinstance(loop.body[0], ast.For)
          and ast.dump(loop.body[0].target) == ast.dump(ast.parse("u, v", mode="eval").body).replace("Load", "Store")
          and ast.dump(loop.body[0].iter) == ast.dump(ast.parse("edgeview", mode="eval").body)
          and len(loop.body[0].body) == 1
          and ast.dump(loop.body[0].body[0]) == ast.dump(ast.parse("check_func(G, u, v, edge_type)").body[0]))
    if not ok:
        raise src.err(loop, "is_valid_mec_graph: the loop is not `for edge_type, edgeview in G.edges().items(): for u, v in edgeview: check_func(G, u, v, edge_type)`")
    if not (isinstance(body[2].value, ast.Constant) and body[2].value.value is True):
        raise src.err(body[2], "is_valid_mec_graph does not return True")
    want = {"PAG": "GPag", "CPDAG": "GCpdag", "StationaryTimeSeriesPAG": "GPag", "StationaryTimeSeriesCPDAG": "GCpdag"}
    txt = "(* is_valid_mec_graph  %s L%d-%d : guard re-applied to every stored edge (u, v, layer name), per class *)\n" % (
        src.rel, fn.lineno, fn.end_lineno)
    for coq, py in (("mec_guard_pag", "PAG"), ("mec_guard_cpdag", "CPDAG"), ("mec_guard_tspag", "StationaryTimeSeriesPAG"),
                    ("mec_guard_tscpdag", "StationaryTimeSeriesCPDAG")):
        if py not in table:
            raise src.err(fn, "is_valid_mec_graph has no branch for %s" % py)
        txt += "Definition %s : guardsel := %s.\n" % (coq, table[py])
    del want
    return txt


# ------------------------------------------------------------------ wrappers
def _same(node, code, mode="exec"):
    ref = ast.parse(code).body[0] if mode == "exec" else ast.parse(code, mode="eval").body
    return ast.dump(node) == ast.dump(ref)


def default_names_ok(src, cls):
    init = Src.method(cls, "__init__")
    if init is None:
        return
    a = init.args
    pos = a.args[len(a.args) - len(a.defaults):]
    for arg, d in zip(pos, a.defaults):
        if arg.arg.endswith("_edge_name"):
            want = arg.arg[:-len("_edge_name")]
            if not (isinstance(d, ast.Constant) and d.value == want):
                raise src.err(init, "default of %s is not %r" % (arg.arg, want))


def wrapper_shape(src, cls, inherited):
    """(guard, bulk, lines) of a class.  guard in GPag/GCpdag/GNone ; bulk in BulkEvolving/BulkStartState/BulkUnguarded"""
    lines = {}
    ae = Src.method(cls, "add_edge")
    if ae is None:
        guard = inherited[0]
        lines["add_edge"] = "inherited"
    else:
        body = [st for st in ae.body if not is_docstring(st)]
        if [x.arg for x in ae.args.args] != ["self", "u_of_edge", "v_of_edge", "edge_type"] or ae.args.kwarg is None:
            raise src.err(ae, "add_edge: unexpected signature")
        if not (len(ae.args.defaults) == 1 and isinstance(ae.args.defaults[0], ast.Constant) and ae.args.defaults[0].value == "all"):
            raise src.err(ae, "add_edge: default edge_type is not 'all'")
        gname = None
        if body and isinstance(body[0], ast.ImportFrom):
            if not (body[0].module == "pywhy_graphs.algorithms.generic" and len(body[0].names) == 1
                    and body[0].names[0].name in GUARD_FUNCS and body[0].names[0].asname is None):
                raise src.err(body[0], "add_edge: unexpected import")
            gname = body[0].names[0].name
            body = body[1:]
        if len(body) != 2 or gname is None:
            raise src.err(ae, "add_edge: expected import, guard call, delegation")
        if not (isinstance(body[0], ast.Expr) and (
                _same(body[0], "%s(self, u_of_edge=u_of_edge, v_of_edge=v_of_edge, edge_type=edge_type)" % gname)
                or _same(body[0], "%s(self, u_of_edge, v_of_edge, edge_type)" % gname))):
            raise src.err(body[0], "add_edge: first statement is not the guard call on (self, u_of_edge, v_of_edge, edge_type)")
        if not (_same(body[1], "return super().add_edge(u_of_edge, v_of_edge, edge_type, **attr)")
                or _same(body[1], "super().add_edge(u_of_edge, v_of_edge, edge_type, **attr)")):
            raise src.err(body[1], "add_edge: second statement is not the delegation to super().add_edge")
        guard = GUARD_FUNCS[gname]
        lines["add_edge"] = "L%d-%d" % (ae.lineno, ae.end_lineno)

    ab = Src.method(cls, "add_edges_from")
    if ab is None:
        bulk = inherited[1]
        lines["add_edges_from"] = "inherited"
    else:
        body = [st for st in ab.body if not is_docstring(st)]
        if [x.arg for x in ab.args.args] != ["self", "ebunch_to_add", "edge_type"] or ab.args.kwarg is None:
            raise src.err(ab, "add_edges_from: unexpected signature")
        gname = None
        if body and isinstance(body[0], ast.ImportFrom):
            if not (body[0].module == "pywhy_graphs.algorithms.generic" and len(body[0].names) == 1
                    and body[0].names[0].name in GUARD_FUNCS and body[0].names[0].asname is None):
                raise src.err(body[0], "add_edges_from: unexpected import")
            gname = body[0].names[0].name
            body = body[1:]
        deleg = "return super().add_edges_from(ebunch_to_add, edge_type, **attr)"
        if (len(body) == 2 and gname is not None and _same(body[0], (
                "for u_of_edge, v_of_edge in ebunch_to_add:\n"
                "    %s(self, u_of_edge=u_of_edge, v_of_edge=v_of_edge, edge_type=edge_type)\n" % gname))
                and _same(body[1], deleg)):
            # every element checked against the graph as it is at the start, then the whole bunch inserted
            if GUARD_FUNCS[gname] != guard:
                raise src.err(ab, "add_edges_from uses another guard than add_edge")
            bulk = "BulkStartState"
        elif (len(body) == 4 and _same(body[0], "ebunch_to_add = list(ebunch_to_add)")
              and _same(body[1], "scratch = self.copy()")
              and _same(body[2], "for u_of_edge, v_of_edge in ebunch_to_add:\n    scratch.add_edge(u_of_edge, v_of_edge, edge_type)\n")
              and _same(body[3], deleg)):
            # every element passes through add_edge (guard, then insertion) on a scratch copy, i.e. is checked against the
            # graph plus the elements before it; self is only touched after the whole batch was accepted
            bulk = "BulkEvolving" if guard != "GNone" else "BulkUnguarded"
        else:
            raise src.err(ab, "add_edges_from: unrecognised body shape")
        lines["add_edges_from"] = "L%d-%d" % (ab.lineno, ab.end_lineno)
    return guard, bulk, lines


def class_bases(cls):
    out = []
    for b in cls.bases:
        if isinstance(b, ast.Name):
            out.append(b.id)
        elif isinstance(b, ast.Attribute):
            out.append(b.attr)
        else:
            out.append("?")
    return out


CLASSES = [  # coq suffix, file, class name
    ("pag", "pywhy_graphs/classes/pag.py", "PAG"),
    ("cpdag", "pywhy_graphs/classes/cpdag.py", "CPDAG"),
    ("augpag", "pywhy_graphs/classes/augmented.py", "AugmentedPAG"),
    ("tspag", "pywhy_graphs/classes/timeseries/pag.py", "StationaryTimeSeriesPAG"),
    ("tscpdag", "pywhy_graphs/classes/timeseries/cpdag.py", "StationaryTimeSeriesCPDAG"),
]


def shapes(repo):
    res = {}
    txt = ""
    for suf, rel, cname in CLASSES:
        src = Src(repo, rel)
        cls = src.cls(cname)
        default_names_ok(src, cls)
        bases = class_bases(cls)
        if bases and bases[0] == "PAG":
            if "pag" not in res:
                raise src.err(cls, "PAG must be translated first")
            inherited = (res["pag"][0], res["pag"][1])
        elif all(b in UNGUARDED_BASES for b in bases):
            inherited = ("GNone", "BulkUnguarded")
        else:
            raise src.err(cls, "unknown base classes %r" % bases)
        if suf == "augpag":
            for m in ("add_edge", "add_edges_from", "orient_uncertain_edge", "remove_edge", "remove_edges_from"):
                if Src.method(cls, m) is not None:
                    raise src.err(Src.method(cls, m), "AugmentedPAG overrides %s" % m)
        for m in ("remove_edge", "remove_edges_from"):
            if Src.method(cls, m) is not None:
                raise src.err(Src.method(cls, m), "%s overrides %s" % (cname, m))
        guard, bulk, lines = wrapper_shape(src, cls, inherited)
        res[suf] = (guard, bulk)
        txt += ("(* %s  %s : add_edge %s, add_edges_from %s ; bases %s *)\n"
                "Definition wrap_%s : wrapper := {| w_guard := %s ; w_bulk := %s |}.\n"
                % (cname, rel, lines["add_edge"], lines["add_edges_from"], ", ".join(bases), suf, guard, bulk))
    return res, txt


# ------------------------------------------------------------------ orient
def tr_orient(ctx, stmts, ind, guard):
    """Gallina expression of type outcome = pstate * bool (state afterwards, raised?) with the current state bound to s"""
    pad = "  " * ind
    if not stmts:
        return pad + "(s, false)"
    st, rest = stmts[0], stmts[1:]
    ln = "(* L%d *)" % st.lineno
    if is_docstring(st):
        return tr_orient(ctx, rest, ind, guard)
    if isinstance(st, ast.If):
        return "%sif %s %s then\n%s\n%selse\n%s" % (pad, ctx.cond(st.test), ln, tr_orient(ctx, st.body + rest, ind + 1, guard), pad,
                                                     tr_orient(ctx, st.orelse + rest, ind + 1, guard))
    if isinstance(st, ast.Raise):
        return "%s(s, true) %s" % (pad, ln)
    if isinstance(st, ast.Return) and st.value is None:
        return "%s(s, false) %s" % (pad, ln)
    if isinstance(st, ast.Assign) and _same(st, "%s, %s = sorted([%s, %s], key=lambda x: x[1])" % ((ctx.uname, ctx.vname) * 2)):
        if ctx.perm is not None:
            raise ctx.src.err(st, "second reordering of the node pair")
        c2 = ctx.copy()
        c2.perm = "lagswap"
        return "%s(* L%d: u, v = sorted by lag -- exchanged iff lagswap *)\n%s" % (pad, st.lineno, tr_orient(c2, rest, ind, guard))
    if isinstance(st, ast.Expr):
        rm = ctx.edge_call(st.value, "remove_edge")
        if rm is not None:
            sw, lay = rm
            if lay is None:
                raise ctx.src.err(st, "remove_edge without an edge type")
            # layer.remove_edge raises NetworkXError when the edge is absent
            return "%sif has s %s %s %s then let s := put s %s %s false in\n%s\n%selse (s, true)" % (
                pad, sw, lay, ln, sw, lay, tr_orient(ctx, rest, ind + 1, guard), pad)
        ad = ctx.edge_call(st.value, "add_edge")
        if ad is not None:
            sw, lay = ad
            if lay is None:
                raise ctx.src.err(st, "add_edge without an edge type")
            g = "false" if guard == "GNone" else "%s (vw s %s) %s" % (GUARD_LOCAL[guard], sw, ETYPE_OF_LAYER[lay])
            return "%sif %s %s then (s, true) else let s := put s %s %s true in\n%s" % (
                pad, g, ln, sw, lay, tr_orient(ctx, rest, ind + 1, guard))
    raise ctx.src.err(st, "unsupported statement in orient_uncertain_edge")


def orient_def(repo, edgetype, suf, rel, cname, guard, anyfn):
    src = Src(repo, rel)
    fn = Src.method(src.cls(cname), "orient_uncertain_edge")
    if fn is None:
        raise TranslationError(rel, 0, "%s.orient_uncertain_edge not found" % cname)
    if [x.arg for x in fn.args.args] != ["self", "u", "v"] or fn.args.vararg or fn.args.kwarg or fn.args.defaults:
        raise src.err(fn, "orient_uncertain_edge: unexpected signature")
    ctx = Ctx(src, edgetype, "self", "u", "v", None, anyfn)
    body = tr_orient(ctx, fn.body, 1, guard)
    return ("(* %s.orient_uncertain_edge  %s L%d-%d ; self.add_edge goes through the class's wrapper (guard %s) *)\n"
            "Definition orient_%s_local (lagswap : bool) (s : pstate) : outcome :=\n%s.\n"
            "Definition orient_%s (lagswap : bool) (s : pstate) (d : dir) : outcome :=\n"
            "  let r := orient_%s_local lagswap (view s d) in (view (fst r) d, snd r).\n"
            % (cname, rel, fn.lineno, fn.end_lineno, guard, suf, body, suf, suf))


# ------------------------------------------------------------------ driver
HEADER = ("(* GENERATED by /verif/translator/guards.py from the Python sources named in the comments -- DO NOT EDIT.\n"
          "   Regenerated on every run of ./check C03 (and by setup.sh); rewritten only when the text changes. *)\n"
          "From Coq Require Import Bool.\n")


def generate(repo):
    """returns {filename: text}; raises TranslationError"""
    edgetype = read_edgetype(repo)
    guards = HEADER + "From PG Require Import C03.PState.\n\n"
    guards += guard_def(repo, edgetype, "_check_adding_pag_edge", "guard_pag", "has_any4") + "\n"
    guards += guard_def(repo, edgetype, "_check_adding_cpdag_edge", "guard_cpdag", "has_any2") + "\n"
    shp, shp_txt = shapes(repo)
    guards += shp_txt + "\n" + mec_def(repo)
    orient = HEADER + "From PG Require Import C03.PState Gen.Gen_Guards.\n\n"
    for suf, rel, cname in CLASSES:
        if suf == "augpag":
            continue
        anyfn = "has_any4" if "pag" in suf and "cpdag" not in suf else "has_any2"
        orient += orient_def(repo, edgetype, suf, rel, cname, shp[suf][0], anyfn) + "\n"
    return {"Gen_Guards.v": guards, "Gen_Orient.v": orient}


def regenerate(repo=None, out_dir=GEN_DIR):
    """(changed files, problem or None).  On a translation error nothing is written (the last good files stay)."""
    repo = repo or os.environ.get("VERIF_REPO", "/repo")
    try:
        files = generate(repo)
    except TranslationError as e:
        return [], str(e)
    os.makedirs(out_dir, exist_ok=True)
    changed = []
    for name, text in files.items():
        p = os.path.join(out_dir, name)
        old = open(p).read() if os.path.exists(p) else None
        if old != text:
            with open(p + ".tmp", "w") as f:
                f.write(text)
            os.replace(p + ".tmp", p)
            changed.append(name)
    return changed, None


if __name__ == "__main__":
    ch, prob = regenerate(sys.argv[1] if len(sys.argv) > 1 else None)
    if prob:
        print("translation error: " + prob)
        sys.exit(1)
    print("guards.py: %s" % (("rewrote " + ", ".join(ch)) if ch else "generated files up to date"))
