#!/usr/bin/env python3
"""Tie (T) for the LOCAL PREDICATES the graph searches of C06 / C16 / C17 / C18 are built from.

A fail-closed symbolic interpreter for a small Python subset: every predicate below depends only on the marks between two
or three given nodes, so it denotes a boolean function of one, two or three pair states (pstate of C03/PState.v: the six
booleans dir_uv dir_vu cir_uv cir_vu bid und of an ordered node pair) and of at most one boolean flag.

Reads (from $VERIF_REPO, default /repo):
  pywhy_graphs/algorithms/pag.py                   _possibly_directed, possible_ancestors / possible_descendants (valid_path),
                                                   is_definite_collider, the triple test of pds, _pd_edge of uncovered_pd_path
  pywhy_graphs/algorithms/generic.py               single_source_shortest_mixed_path / _single_shortest_path_early_stop (BFS
                                                   step), _is_collider, _directed_sub_graph_parents, _bidirected_sub_graph_neighbors
  pywhy_graphs/algorithms/semi_directed_paths.py   per-edge test of is_semi_directed_path, the two arrowhead filters of
                                                   _all_semi_directed_paths_graph
Writes (only if the text changed): /verif/coq/theories/Gen/Gen_Preds.v  -- one Gallina boolean function per predicate (every
atom / branch carries its source line), the complete cell table of each function as evaluated by THIS program (Tie/Preds_Cxx.v
proves table = function, so the Python evaluator used for the cell comparison and the printed Gallina cannot drift apart).

Accepted Python (anything else: TranslationError naming T:file:line; the predicate is then NOT emitted, so the lemmas about it
in Tie/Preds_Cxx.v no longer compile -- fail closed per predicate, the other properties' predicates are unaffected):
  statements : docstring, `name = expr`, if/elif/else, `return expr`, (loop bodies) `continue`
  expressions: True/False, and/or/not, names bound before, `G.has_edge(a, b[, layer])`, `x in S`, `x not in S`,
               `G.neighbors(n)`, `set()`, `set(S)`, `S.union(T)`, `G.sub_directed_graph().predecessors(n)`,
               `G.sub_bidirected_graph().neighbors(n)`, `isinstance(G, CPDAG)` (becomes the flag is_cpdag),
               calls of functions of the same file (inlined, same subset), layers `G.<x>_edge_name`, `EdgeType.X.value`,
               "directed"-style literals
  glue       : the loops / lambdas around an inline predicate are matched against the exact statement shapes quoted below.
Primitive semantics taken at face value (and re-checked cell by cell against the real classes on every run by
harness/tie_preds.py): has_edge(a, b, L) = the ordered pair is in layer L (bidirected/undirected read symmetrically);
has_edge(a, b) = in some layer; neighbors(n) = nodes joined to n by any mark in any layer.
CLI: python3 /verif/translator/predicates.py [repo]
"""
import ast
import itertools
import os
import sys

sys.path.insert(0, os.path.dirname(os.path.abspath(__file__)))
from guards import TranslationError, Src, read_edgetype, LAYER_ATTRS, LAYER_OF_VALUE, is_docstring  # noqa: E402

VERIF = "/verif"
GEN_DIR = os.path.join(VERIF, "coq", "theories", "Gen")
PAG_PY = "pywhy_graphs/algorithms/pag.py"
GEN_PY = "pywhy_graphs/algorithms/generic.py"
SEMI_PY = "pywhy_graphs/algorithms/semi_directed_paths.py"

# bit i of a state code <-> field ; the enumeration order of C03/PState.all_pstates (dir_uv outermost, und innermost)
FIELDS = ["dir_uv", "dir_vu", "cir_uv", "cir_vu", "bid", "und"]
ORDER = [(a << 0 | b << 1 | c << 2 | d << 3 | e << 4 | f << 5)
         for a in (0, 1) for b in (0, 1) for c in (0, 1) for d in (0, 1) for e in (0, 1) for f in (0, 1)]
SMALL = [0, 1, 2, 4, 8, 16, 32]        # third pair of a triple in the emitted cell tables: no mark, each single mark
BIT = {("LDir", False): 0, ("LDir", True): 1, ("LCir", False): 2, ("LCir", True): 3, ("LBid", False): 4, ("LBid", True): 4,
       ("LUnd", False): 5, ("LUnd", True): 5}


# ------------------------------------------------------------------ symbolic values
class VGraph:
    pass


class VNode:
    def __init__(self, sym):
        self.sym = sym


class VBool:
    def __init__(self, e):
        self.e = e


class VSet:
    def __init__(self, fn):
        self.fn = fn            # (VNode, ast node) -> bool IR


class VStr:
    def __init__(self, s):
        self.s = s


class VLayerGraph:
    def __init__(self, layer):
        self.layer = layer


# ------------------------------------------------------------------ boolean IR
def ev(e, states, params):
    """evaluate the IR; states: list of 6-bit codes, one per pair; params: dict name -> bool"""
    k = e[0]
    if k == "c":
        return e[1]
    if k == "p":
        return params[e[1]]
    if k == "has":
        return bool(states[e[1]] >> BIT[(e[3], e[2])] & 1)
    if k == "any":
        return any(states[e[1]] >> BIT[(lay, e[2])] & 1 for lay in ("LDir", "LBid", "LUnd", "LCir"))
    if k == "nbr":
        return states[e[1]] != 0
    if k == "not":
        return not ev(e[1], states, params)
    if k == "and":
        return all(ev(x, states, params) for x in e[1])
    if k == "or":
        return any(ev(x, states, params) for x in e[1])
    if k == "ite":
        return ev(e[2], states, params) if ev(e[1], states, params) else ev(e[3], states, params)
    raise AssertionError(k)


def coq(e, svars, ind=2):
    k = e[0]
    cb = lambda b: "true" if b else "false"  # noqa: E731
    if k == "c":
        return cb(e[1])
    if k == "p":
        return e[1]
    if k == "has":
        return "(has %s %s %s (* L%d *))" % (svars[e[1]], cb(e[2]), e[3], e[4])
    if k == "any":
        return "(has_any4 %s %s (* L%d *))" % (svars[e[1]], cb(e[2]), e[3])
    if k == "nbr":
        return "(nbr %s (* L%d *))" % (svars[e[1]], e[2])
    if k == "not":
        return "(negb %s)" % coq(e[1], svars, ind)
    if k in ("and", "or"):
        return "(" + (" && " if k == "and" else " || ").join(coq(x, svars, ind) for x in e[1]) + ")"
    if k == "ite":
        pad = "  " * ind
        return "(if %s (* L%d *)\n%sthen %s\n%selse %s)" % (coq(e[1], svars, ind + 1), e[4], pad, coq(e[2], svars, ind + 1), pad,
                                                            coq(e[3], svars, ind + 1))
    raise AssertionError(k)


# ------------------------------------------------------------------ interpreter
class Interp:
    def __init__(self, src, edgetype, pairs, allow_cpdag_flag=False):
        self.src, self.edgetype = src, edgetype
        self.pairs = pairs                  # list of (sym_a, sym_b): pair state k is seen from (sym_a, sym_b)
        self.allow_cpdag_flag = allow_cpdag_flag
        self.depth = 0

    def err(self, node, msg):
        return self.src.err(node, msg)

    def pair(self, a, b, node):
        for k, (x, y) in enumerate(self.pairs):
            if (a.sym, b.sym) == (x, y):
                return k, False
            if (a.sym, b.sym) == (y, x):
                return k, True
        raise self.err(node, "marks between %s and %s are not covered by the table of this predicate" % (a.sym, b.sym))

    def layer(self, v, node):
        if isinstance(v, VStr):
            if v.s in LAYER_OF_VALUE:
                return LAYER_OF_VALUE[v.s]
            if v.s == "any":
                return None
        raise self.err(node, "unsupported edge-type expression")

    def node(self, v, node):
        if not isinstance(v, VNode):
            raise self.err(node, "expected one of the predicate's node arguments")
        return v

    # ---- expressions
    def expr(self, e, env):
        ln = getattr(e, "lineno", 0)
        if isinstance(e, ast.Constant):
            if isinstance(e.value, bool):
                return VBool(("c", e.value))
            if isinstance(e.value, str):
                return VStr(e.value)
            raise self.err(e, "unsupported constant")
        if isinstance(e, ast.Name):
            if e.id in env:
                return env[e.id]
            raise self.err(e, "unbound name %s" % e.id)
        if isinstance(e, ast.Attribute):
            if (e.attr == "value" and isinstance(e.value, ast.Attribute) and isinstance(e.value.value, ast.Name)
                    and e.value.value.id == "EdgeType" and "EdgeType" not in env):
                if e.value.attr not in self.edgetype:
                    raise self.err(e, "unknown EdgeType member")
                return VStr(self.edgetype[e.value.attr])
            base = self.expr(e.value, env)
            if isinstance(base, VGraph) and e.attr in LAYER_ATTRS:
                return VStr({"LDir": "directed", "LBid": "bidirected", "LUnd": "undirected", "LCir": "circle"}[LAYER_ATTRS[e.attr]])
            raise self.err(e, "unsupported attribute")
        if isinstance(e, ast.BoolOp):
            vals = [self.expr(v, env) for v in e.values]
            if not all(isinstance(v, VBool) for v in vals):
                raise self.err(e, "and/or on non-boolean values")
            return VBool(("and" if isinstance(e.op, ast.And) else "or", [v.e for v in vals]))
        if isinstance(e, ast.UnaryOp) and isinstance(e.op, ast.Not):
            v = self.expr(e.operand, env)
            if not isinstance(v, VBool):
                raise self.err(e, "not on a non-boolean value")
            return VBool(("not", v.e))
        if isinstance(e, ast.Compare) and len(e.ops) == 1 and isinstance(e.ops[0], (ast.In, ast.NotIn)):
            x = self.node(self.expr(e.left, env), e.left)
            s = self.expr(e.comparators[0], env)
            if not isinstance(s, VSet):
                raise self.err(e, "membership in something that is not a node set")
            r = s.fn(x, e)
            return VBool(r if isinstance(e.ops[0], ast.In) else ("not", r))
        if isinstance(e, ast.Call):
            return self.call(e, env, ln)
        raise self.err(e, "unsupported expression")

    def call(self, e, env, ln):
        kw = {k.arg: k.value for k in e.keywords}
        if None in kw:
            raise self.err(e, "**kwargs in a call")
        f = e.func
        if isinstance(f, ast.Attribute):
            recv = self.expr(f.value, env)
            if isinstance(recv, VGraph) and f.attr == "has_edge":
                args = list(e.args)
                if set(kw) - {"edge_type"} or len(args) not in (2, 3) or (len(args) == 3 and kw):
                    raise self.err(e, "unsupported arguments of has_edge")
                a = self.node(self.expr(args[0], env), args[0])
                b = self.node(self.expr(args[1], env), args[1])
                layx = args[2] if len(args) == 3 else kw.get("edge_type")
                lay = self.layer(self.expr(layx, env), layx) if layx is not None else None
                k, sw = self.pair(a, b, e)
                return VBool(("any", k, sw, ln) if lay is None else ("has", k, sw, lay, ln))
            if isinstance(recv, VGraph) and f.attr == "neighbors" and len(e.args) == 1 and not kw:
                n = self.node(self.expr(e.args[0], env), e.args[0])
                return VSet(lambda x, at, n=n: ("nbr", self.pair(x, n, at)[0], ln))
            if isinstance(recv, VGraph) and f.attr in ("sub_directed_graph", "sub_bidirected_graph") and not e.args and not kw:
                return VLayerGraph("LDir" if f.attr == "sub_directed_graph" else "LBid")
            if isinstance(recv, VLayerGraph) and len(e.args) == 1 and not kw and (
                    (recv.layer == "LDir" and f.attr == "predecessors") or (recv.layer == "LBid" and f.attr == "neighbors")):
                n = self.node(self.expr(e.args[0], env), e.args[0])
                lay = recv.layer

                def member(x, at, n=n, lay=lay):
                    k, sw = self.pair(x, n, at)      # x -> n in the directed layer / {x, n} in the bidirected layer
                    return ("has", k, sw, lay, ln)
                return VSet(member)
            if isinstance(recv, VSet) and f.attr == "union" and len(e.args) == 1 and not kw:
                other = self.expr(e.args[0], env)
                if not isinstance(other, VSet):
                    raise self.err(e, "union with something that is not a node set")
                return VSet(lambda x, at: ("or", [recv.fn(x, at), other.fn(x, at)]))
            raise self.err(e, "unsupported method call")
        if isinstance(f, ast.Name):
            if f.id in env:
                raise self.err(e, "call of a local value")
            if f.id == "set" and not kw and len(e.args) <= 1:
                if not e.args:
                    return VSet(lambda x, at: ("c", False))
                v = self.expr(e.args[0], env)
                if not isinstance(v, VSet):
                    raise self.err(e, "set() of something that is not a node set")
                return v
            if f.id == "isinstance" and len(e.args) == 2 and not kw:
                if (self.allow_cpdag_flag and isinstance(self.expr(e.args[0], env), VGraph) and isinstance(e.args[1], ast.Name)
                        and e.args[1].id == "CPDAG"):
                    return VBool(("p", "is_cpdag"))
                raise self.err(e, "unsupported isinstance test")
            return self.inline(f.id, e, kw, env)
        raise self.err(e, "unsupported call")

    def inline(self, name, e, kw, env):
        fn = next((n for n in self.src.tree.body if isinstance(n, ast.FunctionDef) and n.name == name), None)
        if fn is None:
            raise self.err(e, "call of %s, which is not a function of this file" % name)
        if self.depth > 4:
            raise self.err(e, "call nesting too deep")
        a = fn.args
        if a.vararg or a.kwarg or a.kwonlyargs or a.posonlyargs:
            raise self.err(fn, "unsupported signature of %s" % name)
        names = [x.arg for x in a.args]
        if len(e.args) > len(names) or any(isinstance(x, ast.Starred) for x in e.args):
            raise self.err(e, "unsupported arguments in the call of %s" % name)
        local = {}
        for n, x in zip(names, e.args):
            local[n] = self.expr(x, env)
        for n, x in kw.items():
            if n not in names or n in local:
                raise self.err(e, "bad keyword %s in the call of %s" % (n, name))
            local[n] = self.expr(x, env)
        defaults = dict(zip(names[len(names) - len(a.defaults):], a.defaults))
        for n in names:
            if n not in local:
                if n not in defaults:
                    raise self.err(e, "missing argument %s in the call of %s" % (n, name))
                local[n] = self.expr(defaults[n], {})
        self.depth += 1
        try:
            return self.value(self.run(fn.body, local, False), fn)
        finally:
            self.depth -= 1

    # ---- statements -> decision tree with leaves ("ret", value) | ("fall",) | ("continue",)
    def run(self, stmts, env, in_loop):
        if not stmts:
            return ("fall",)
        st, rest = stmts[0], stmts[1:]
        if is_docstring(st):
            return self.run(rest, env, in_loop)
        if isinstance(st, ast.Assign) or (isinstance(st, ast.AnnAssign) and st.value is not None):
            tgt = st.targets[0] if isinstance(st, ast.Assign) and len(st.targets) == 1 else getattr(st, "target", None)
            if not isinstance(tgt, ast.Name):
                raise self.err(st, "unsupported assignment target")
            env2 = dict(env)
            env2[tgt.id] = self.expr(st.value, env)
            return self.run(rest, env2, in_loop)
        if isinstance(st, ast.If):
            c = self.expr(st.test, env)
            if not isinstance(c, VBool):
                raise self.err(st, "condition is not boolean")
            return ("ite", c.e, self.run(st.body + rest, env, in_loop), self.run(st.orelse + rest, env, in_loop), st.lineno)
        if isinstance(st, ast.Return) and st.value is not None:
            return ("ret", self.expr(st.value, env))
        if isinstance(st, ast.Continue) and in_loop:
            return ("continue",)
        raise self.err(st, "unsupported statement")

    def value(self, tree, where):
        """a function body: every path returns; all booleans or all node sets"""
        leaves = []

        def walk(t):
            if t[0] == "ite":
                walk(t[2])
                walk(t[3])
            else:
                leaves.append(t)
        walk(tree)
        if any(t[0] != "ret" for t in leaves):
            raise self.err(where, "a path through the body does not return a value")
        if all(isinstance(t[1], VBool) for t in leaves):
            def tob(t):
                return t[1].e if t[0] == "ret" else ("ite", t[1], tob(t[2]), tob(t[3]), t[4])
            return VBool(tob(tree))
        if all(isinstance(t[1], VSet) for t in leaves):
            def tos(t, x, at):
                return t[1].fn(x, at) if t[0] == "ret" else ("ite", t[1], tos(t[2], x, at), tos(t[3], x, at), t[4])
            return VSet(lambda x, at: tos(tree, x, at))
        raise self.err(where, "the body returns values of different kinds")

    def loop_decision(self, tree, where, mapping):
        """a loop body used as a test: leaves mapped through `mapping` (kind or ('ret', bool) -> bool)"""
        def tob(t):
            if t[0] == "ite":
                return ("ite", t[1], tob(t[2]), tob(t[3]), t[4])
            if t[0] == "ret":
                v = t[1]
                if isinstance(v, VBool) and v.e[0] == "c" and ("ret", v.e[1]) in mapping:
                    return ("c", mapping[("ret", v.e[1])])
                raise self.err(where, "unexpected return inside the loop body")
            if t[0] in mapping:
                return ("c", mapping[t[0]])
            raise self.err(where, "unexpected exit %s of the loop body" % t[0])
        return tob(tree)


# ------------------------------------------------------------------ helpers on the ast
def dump(code, mode="exec"):
    return ast.dump(ast.parse(code).body[0] if mode == "exec" else ast.parse(code, mode="eval").body)


def same(node, code, mode="exec"):
    return ast.dump(node) == dump(code, mode)


def sig(src, fn, names, defaults):
    """exact positional signature: names and (constant) defaults of the trailing parameters"""
    a = fn.args
    if a.vararg or a.kwarg or a.kwonlyargs or a.posonlyargs or [x.arg for x in a.args] != names:
        raise src.err(fn, "unexpected signature of %s (expected %s)" % (fn.name, ", ".join(names)))
    got = [d.value if isinstance(d, ast.Constant) else "<expr>" for d in a.defaults]
    if got != defaults:
        raise src.err(fn, "unexpected defaults of %s: %r (expected %r)" % (fn.name, got, defaults))


def body_of(fn):
    return [st for st in fn.body if not is_docstring(st)]


def assigned_names(nodes):
    out = set()
    for top in nodes:
        for n in ast.walk(top):
            if isinstance(n, (ast.Assign, ast.AugAssign, ast.AnnAssign, ast.For, ast.comprehension, ast.NamedExpr, ast.With)):
                tg = n.targets if isinstance(n, ast.Assign) else [getattr(n, "target", None)]
                for t in tg:
                    if t is not None:
                        out |= {x.id for x in ast.walk(t) if isinstance(x, ast.Name)}
            if isinstance(n, (ast.Global, ast.Nonlocal)):
                out |= set(n.names)
    return out


def find_all(root, pred):
    return [n for n in ast.walk(root) if pred(n)]


# ------------------------------------------------------------------ the predicates
class Pred:
    """one emitted function: name, group (property), params (bool flags), pairs (documentation of each state variable),
    ir, source reference, doc"""
    def __init__(self, name, group, params, pairs, ir, ref, doc):
        self.name, self.group, self.params, self.pairs, self.ir, self.ref, self.doc = name, group, params, pairs, ir, ref, doc

    def svars(self):
        return ["s_%s_%s" % p for p in self.pairs]

    def domain(self):
        """the cell enumeration: list of (params dict, [codes])"""
        doms = [ORDER if k < 2 else SMALL for k in range(len(self.pairs))]
        out = []
        for pv in itertools.product((False, True), repeat=len(self.params)):
            for st in itertools.product(*doms):
                out.append((dict(zip(self.params, pv)), list(st)))
        return out

    def cells(self):
        return [ev(self.ir, st, pv) for pv, st in self.domain()]

    def eval(self, states, **params):
        return ev(self.ir, states, params)

    def text(self):
        sv = self.svars()
        args = "".join(" (%s : bool)" % p for p in self.params) + "".join(" (%s : pstate)" % s for s in sv)
        call = "gen_%s%s%s" % (self.name, "".join(" " + p for p in self.params), "".join(" " + s for s in sv))
        enum = call
        for k in reversed(range(len(sv))):
            lst = "all_pstates" if k < 2 else "small_pstates"
            enum = ("map" if k == len(sv) - 1 else "flat_map") + " (fun %s => %s) %s" % (sv[k], enum, lst)
        for p in reversed(self.params):
            enum = "flat_map (fun %s => %s) bools" % (p, enum)
        cells = self.cells()
        rows = ["; ".join("true" if c else "false" for c in cells[i:i + 16]) for i in range(0, len(cells), 16)]
        return ("(* %s\n   %s\n   state variables: %s *)\n"
                "Definition gen_%s%s : bool :=\n  %s.\n"
                "Definition gen_%s_enum : list bool :=\n  %s.\n"
                "Definition gen_%s_cells : list bool :=\n  [%s].\n"
                % (self.ref, self.doc, "; ".join("%s = the marks between %s and %s seen from (%s, %s)" % (s, a, b, a, b)
                                                 for s, (a, b) in zip(sv, self.pairs)),
                   self.name, args, coq(self.ir, sv), self.name, enum, self.name, ";\n   ".join(rows)))


def ref(src, node, what):
    return "%s  %s L%d-%d" % (what, src.rel, node.lineno, node.end_lineno)


def boolv(v, src, where):
    if not isinstance(v, VBool):
        raise src.err(where, "the predicate does not denote a boolean")
    return v.e


def p_possibly_directed(repo, et):
    src = Src(repo, PAG_PY)
    fn = src.func("_possibly_directed")
    sig(src, fn, ["G", "i", "j", "reverse"], [False])
    it = Interp(src, et, [("i", "j")])
    env = {"G": VGraph(), "i": VNode("i"), "j": VNode("j"), "reverse": VBool(("p", "reverse"))}
    ir = boolv(it.value(it.run(fn.body, env, False), fn), src, fn)
    return [Pred("possibly_directed", "C16", ["reverse"], [("i", "j")], ir, ref(src, fn, "_possibly_directed(G, i, j, reverse)"),
                 "true = the step i *-* j may be taken")]


def p_poss_steps(repo, et):
    """possible_descendants / possible_ancestors: BFS of generic.py over `w in G.neighbors(v)` with valid_path(G, v, w)"""
    src = Src(repo, PAG_PY)
    gsrc = Src(repo, GEN_PY)
    top = gsrc.func("single_source_shortest_mixed_path")
    sig(gsrc, top, ["G", "source", "cutoff", "valid_path"], [None, None])
    if "valid_path" in assigned_names([st for st in top.body if not (
            isinstance(st, ast.If) and same(st, "if valid_path is None:\n    valid_path = lambda *_: True\n"))]):
        raise gsrc.err(top, "single_source_shortest_mixed_path rebinds valid_path")
    last = body_of(top)[-1]
    if not same(last, "return dict(_single_shortest_path_early_stop(G, nextlevel, paths, cutoff, join, valid_path))"):
        raise gsrc.err(last, "single_source_shortest_mixed_path does not hand G and valid_path to _single_shortest_path_early_stop")
    if "G" in assigned_names(top.body):
        raise gsrc.err(top, "single_source_shortest_mixed_path rebinds G")
    bfs = gsrc.func("_single_shortest_path_early_stop")
    sig(gsrc, bfs, ["G", "firstlevel", "paths", "cutoff", "join", "valid_path"], [])
    if {"G", "valid_path"} & assigned_names(bfs.body):
        raise gsrc.err(bfs, "_single_shortest_path_early_stop rebinds G / valid_path")
    loops = find_all(bfs, lambda n: isinstance(n, ast.For) and same(n.iter, "thislevel", "eval"))
    ok = (len(loops) == 1 and isinstance(loops[0].target, ast.Name)
          and loops[0].target.id == "v" and len(loops[0].body) == 1 and isinstance(loops[0].body[0], ast.For))
    inner = loops[0].body[0] if ok else None
    ok = (ok and isinstance(inner.target, ast.Name) and inner.target.id == "w" and same(inner.iter, "G.neighbors(v)", "eval")
          and len(inner.body) == 1 and isinstance(inner.body[0], ast.If) and not inner.body[0].orelse
          and same(inner.body[0].test, "w not in paths and valid_path(G, v, w)", "eval"))
    if not ok:
        raise gsrc.err(bfs, "the search loop is not `for v in thislevel: for w in G.neighbors(v): if w not in paths and "
                            "valid_path(G, v, w): ...`")
    test_line = inner.body[0].lineno
    nbr_line = inner.lineno
    out = []
    for fname, short in (("possible_descendants", "poss_desc_step"), ("possible_ancestors", "poss_anc_step")):
        fn = src.func(fname)
        sig(src, fn, ["G", "source"], [])
        b = body_of(fn)
        if len(b) != 3 or not (isinstance(b[0], ast.Assign) and isinstance(b[0].value, ast.Lambda)):
            raise src.err(fn, "%s: expected `valid_path = lambda ...`, the search call, `return set(paths.keys())`" % fname)
        lam = b[0].value
        call = lam.body
        rev = None
        if (isinstance(call, ast.Call) and len(call.keywords) == 1 and call.keywords[0].arg == "reverse"
                and isinstance(call.keywords[0].value, ast.Constant) and isinstance(call.keywords[0].value.value, bool)):
            rev = call.keywords[0].value.value
        if rev is None or not same(b[0], "valid_path = lambda *args: _possibly_directed(*args, reverse=%s)" % rev):
            raise src.err(b[0], "%s: valid_path is not `lambda *args: _possibly_directed(*args, reverse=<bool>)`" % fname)
        if not same(b[1], "paths = single_source_shortest_mixed_path(G, source, valid_path=valid_path)"):
            raise src.err(b[1], "%s: unexpected search call" % fname)
        if not same(b[2], "return set(paths.keys())"):
            raise src.err(b[2], "%s: unexpected return" % fname)
        # valid_path(G, v, w) = _possibly_directed(G, v, w, reverse=rev)
        it = Interp(src, et, [("v", "w")])
        env = {"G": VGraph(), "v": VNode("v"), "w": VNode("w")}
        callnode = ast.parse("_possibly_directed(G, v, w, reverse=%s)" % rev, mode="eval").body
        for n in ast.walk(callnode):
            n.lineno = b[0].lineno
            n.end_lineno = b[0].lineno
        inner_ir = boolv(it.expr(callnode, env), src, b[0])
        ir = ("and", [("nbr", 0, nbr_line), inner_ir])
        out.append(Pred(short, "C16", [], [("v", "w")], ir,
                        ref(src, fn, "%s: one BFS step v -> w" % fname) + " ; loop %s L%d/L%d" % (gsrc.rel, nbr_line, test_line),
                        "w in G.neighbors(v) and _possibly_directed(G, v, w, reverse=%s)" % rev))
    return out


def p_semi(repo, et):
    src = Src(repo, SEMI_PY)
    out = []
    # --- is_semi_directed_path: the loop over consecutive pairs
    fn = src.func("is_semi_directed_path")
    sig(src, fn, ["G", "nodes"], [])
    b = body_of(fn)
    loops = [st for st in b if isinstance(st, ast.For)]
    if (len(loops) != 1 or b[-2] is not loops[0] or not same(b[-1], "return True") or loops[0].orelse
            or not same(loops[0].iter, "range(len(nodes) - 1)", "eval")
            or not isinstance(loops[0].target, ast.Name) or loops[0].target.id != "idx"
            or not same(loops[0].body[0], "u, v = nodes[idx], nodes[idx + 1]")):
        raise src.err(fn, "is_semi_directed_path: expected `for idx in range(len(nodes) - 1): u, v = nodes[idx], nodes[idx + 1]; "
                          "...` followed by `return True`")
    if {"G", "nodes"} & assigned_names(fn.body):
        raise src.err(fn, "is_semi_directed_path rebinds G / nodes")
    it = Interp(src, et, [("u", "v")])
    env = {"G": VGraph(), "u": VNode("u"), "v": VNode("v")}
    tree = it.run(loops[0].body[1:], env, True)
    ir = it.loop_decision(tree, loops[0], {("ret", False): False, "fall": True, "continue": True})
    out.append(Pred("semi_edge_ok", "C16", [], [("u", "v")], ir, ref(src, loops[0], "is_semi_directed_path: test of one consecutive pair (u, v)"),
                    "true = the pair does not make the function return False"))
    # --- _all_semi_directed_paths_graph: the two arrowhead filters
    fn = src.func("_all_semi_directed_paths_graph")
    sig(src, fn, ["G", "source", "targets", "cutoff", "directed_edge_name", "bidirected_edge_name"], ["directed", "bidirected"])
    pub = src.func("all_semi_directed_paths")
    calls = find_all(pub, lambda n: isinstance(n, ast.Call) and isinstance(n.func, ast.Name) and n.func.id == fn.name)
    if len(calls) != 1 or not same(calls[0], "_all_semi_directed_paths_graph(G, source, targets, cutoff)", "eval"):
        raise src.err(pub, "all_semi_directed_paths does not call _all_semi_directed_paths_graph(G, source, targets, cutoff)")
    if {"G", "directed_edge_name", "bidirected_edge_name"} & assigned_names(fn.body) or "G" in assigned_names(pub.body):
        raise src.err(fn, "the graph / edge-name parameters are rebound")
    b = body_of(fn)
    wl = [st for st in b if isinstance(st, ast.While)]
    if len(wl) != 1 or not same(wl[0].test, "stack", "eval"):
        raise src.err(fn, "_all_semi_directed_paths_graph: expected one `while stack:` loop")
    pushes = find_all(fn, lambda n: isinstance(n, ast.Call) and same(n.func, "G.neighbors", "eval"))
    if sorted(ast.dump(p) for p in pushes) != sorted([dump("G.neighbors(source)", "eval"), dump("G.neighbors(nbr)", "eval")]):
        raise src.err(fn, "_all_semi_directed_paths_graph: the neighbour iterators are not G.neighbors(source) / G.neighbors(nbr)")
    wb = wl[0].body
    pre = [st for st in wb if not isinstance(st, ast.If)]
    want = ["nbrs = stack[-1]", "prev_node = prev_nodes[-1]", "nbr = next(nbrs, None)"]
    ifs = [st for st in wb if isinstance(st, ast.If)]
    if [ast.dump(x) for x in pre] != [dump(w) for w in want] or len(ifs) != 1 or wb[-1] is not ifs[0]:
        raise src.err(wl[0], "_all_semi_directed_paths_graph: loop head is not `nbrs = stack[-1]; prev_node = prev_nodes[-1]; "
                             "nbr = next(nbrs, None); if ...`")
    first = ifs[0]
    t = first.test
    if not (isinstance(t, ast.BoolOp) and isinstance(t.op, ast.And) and len(t.values) == 2
            and same(t.values[1], "nbr not in visited", "eval") and len(first.body) == 1 and isinstance(first.body[0], ast.Continue)):
        raise src.err(first, "_all_semi_directed_paths_graph: first test is not `(<arrowhead test>) and nbr not in visited: continue`")
    it = Interp(src, et, [("prev_node", "nbr")])
    env = {"G": VGraph(), "prev_node": VNode("prev_node"), "nbr": VNode("nbr"),
           "directed_edge_name": VStr("directed"), "bidirected_edge_name": VStr("bidirected")}
    blocked = boolv(it.expr(t.values[0], env), src, first)
    out.append(Pred("semi_step_main", "C16", [], [("prev_node", "nbr")], ("and", [("nbr", 0, wl[0].lineno), ("not", blocked)]),
                    ref(src, first, "_all_semi_directed_paths_graph: a drawn neighbour nbr of prev_node is not skipped"),
                    "nbr in G.neighbors(prev_node) and not (<arrowhead test of L%d>)" % first.lineno))
    # the else-chain: elif nbr is None / elif len(visited) < cutoff / else (cutoff branch)
    node = first
    while len(node.orelse) == 1 and isinstance(node.orelse[0], ast.If):
        node = node.orelse[0]
    tail = node.orelse
    if not (len(tail) >= 1 and isinstance(tail[0], ast.For) and isinstance(tail[0].target, ast.Name) and tail[0].target.id == "target"
            and same(tail[0].iter, "(targets & (set(nbrs) | {nbr})) - set(visited.keys())", "eval")
            and len(tail[0].body) == 2 and isinstance(tail[0].body[0], ast.If) and not tail[0].body[0].orelse
            and len(tail[0].body[0].body) == 1 and isinstance(tail[0].body[0].body[0], ast.Continue)
            and same(tail[0].body[1], "yield list(visited) + [target]")):
        raise src.err(node, "_all_semi_directed_paths_graph: cutoff branch is not `for target in (targets & (set(nbrs) | {nbr})) - "
                            "set(visited.keys()): if <arrowhead test>: continue; yield list(visited) + [target]`")
    env2 = dict(env)
    env2["target"] = VNode("nbr")
    del env2["nbr"]
    blocked2 = boolv(it.expr(tail[0].body[0].test, env2), src, tail[0])
    out.append(Pred("semi_step_cutoff", "C16", [], [("prev_node", "nbr")], ("and", [("nbr", 0, tail[0].lineno), ("not", blocked2)]),
                    ref(src, tail[0], "_all_semi_directed_paths_graph: a target among the neighbours of prev_node is yielded at the cutoff"),
                    "target in G.neighbors(prev_node) and not (<arrowhead test of L%d>) ; nbr stands for target" % tail[0].body[0].lineno))
    return out


def p_definite_collider(repo, et):
    src = Src(repo, PAG_PY)
    fn = src.func("is_definite_collider")
    sig(src, fn, ["G", "node1", "node2", "node3"], [])
    pairs = [("node1", "node2"), ("node3", "node2")]
    it = Interp(src, et, pairs)
    env = {"G": VGraph(), "node1": VNode("node1"), "node2": VNode("node2"), "node3": VNode("node3")}
    ir = boolv(it.value(it.run(fn.body, env, False), fn), src, fn)
    return [Pred("is_definite_collider", "C17", [], pairs, ir, ref(src, fn, "is_definite_collider(G, node1, node2, node3)"),
                 "node1 *-> node2 <-* node3")]


def p_pds_triple(repo, et):
    src = Src(repo, PAG_PY)
    fn = src.func("pds")
    sig(src, fn, ["graph", "node_x", "node_y", "max_path_length"], [None, None])
    if "graph" in assigned_names(fn.body):
        raise src.err(fn, "pds rebinds graph")
    wl = [st for st in body_of(fn) if isinstance(st, ast.While)]
    if len(wl) != 1 or not same(wl[0].test, "len(q) != 0", "eval"):
        raise src.err(fn, "pds: expected one `while len(q) != 0:` loop")
    heads = [st for st in wl[0].body if same(st, "prev_node, this_node = this_edge")]
    loops = [st for st in wl[0].body if isinstance(st, ast.For)]
    if (len(heads) != 1 or len(loops) != 1 or not isinstance(loops[0].target, ast.Name) or loops[0].target.id != "next_node"
            or not same(loops[0].iter, "graph.neighbors(this_node)", "eval")):
        raise src.err(wl[0], "pds: expected `prev_node, this_node = this_edge` and `for next_node in graph.neighbors(this_node):`")
    lb = loops[0].body
    if {"prev_node", "this_node", "next_node"} & assigned_names(lb) or \
            {"prev_node", "this_node"} & assigned_names([st for st in wl[0].body if st is not heads[0] and st is not loops[0]]):
        raise src.err(loops[0], "pds: the triple's nodes are rebound inside the loop")
    a1 = [st for st in lb if isinstance(st, ast.Assign) and isinstance(st.targets[0], ast.Name) and st.targets[0].id == "is_def_collider"]
    a2 = [st for st in lb if isinstance(st, ast.Assign) and isinstance(st.targets[0], ast.Name) and st.targets[0].id == "is_triangle"]
    tests = [st for st in lb if isinstance(st, ast.If)
             and {"is_def_collider", "is_triangle"} & {n.id for n in ast.walk(st.test) if isinstance(n, ast.Name)}]
    if len(a1) != 1 or len(a2) != 1 or len(tests) != 1 or not (lb.index(a1[0]) < lb.index(tests[0]) and lb.index(a2[0]) < lb.index(tests[0])):
        raise src.err(loops[0], "pds: expected one assignment to is_def_collider, one to is_triangle and one test of them, in this order")
    if {"is_def_collider", "is_triangle"} & assigned_names([st for st in lb if st is not a1[0] and st is not a2[0]]):
        raise src.err(loops[0], "pds: the two flags are rebound")
    pairs = [("prev_node", "this_node"), ("next_node", "this_node"), ("prev_node", "next_node")]
    it = Interp(src, et, pairs)
    env = {"graph": VGraph(), "prev_node": VNode("prev_node"), "this_node": VNode("this_node"), "next_node": VNode("next_node")}
    first, second = sorted([a1[0], a2[0]], key=lb.index)
    tree = it.run([first, second, ast.copy_location(ast.Return(value=tests[0].test), tests[0])], env, False)
    ir = boolv(it.value(tree, tests[0]), src, tests[0])
    return [Pred("pds_triple", "C17", [], pairs, ir,
                 ref(src, tests[0], "pds: the test that lets the search go on from (prev_node, this_node) to next_node") +
                 " (flags L%d, L%d)" % (a1[0].lineno, a2[0].lineno),
                 "is_def_collider or is_triangle ; next_node ranges over graph.neighbors(this_node)")], \
        (tests[0].lineno, tests[0].body[0].lineno, tests[0].body[-1].end_lineno)


def p_is_collider(repo, et):
    src = Src(repo, GEN_PY)
    out = []
    fn = src.func("_is_collider")
    sig(src, fn, ["G", "prev_node", "cur_node", "next_node"], [])
    pairs = [("prev_node", "cur_node"), ("next_node", "cur_node")]
    it = Interp(src, et, pairs, allow_cpdag_flag=True)
    env = {"G": VGraph(), "prev_node": VNode("prev_node"), "cur_node": VNode("cur_node"), "next_node": VNode("next_node")}
    ir = boolv(it.value(it.run(fn.body, env, False), fn), src, fn)
    out.append(Pred("is_collider", "C06", ["is_cpdag"], pairs, ir, ref(src, fn, "_is_collider(G, prev_node, cur_node, next_node)"),
                    "is_cpdag = isinstance(G, CPDAG)"))
    for fname, short, flags in (("_directed_sub_graph_parents", "dir_parent", []), ("_bidirected_sub_graph_neighbors", "bidir_nbr", ["is_cpdag"])):
        hf = src.func(fname)
        sig(src, hf, ["G", "node"], [])
        it = Interp(src, et, [("x", "node")], allow_cpdag_flag=True)
        v = it.value(it.run(hf.body, {"G": VGraph(), "node": VNode("node")}, False), hf)
        if not isinstance(v, VSet):
            raise src.err(hf, "%s does not return a node set" % fname)
        out.append(Pred(short, "C06", flags, [("x", "node")], v.fn(VNode("x"), hf), ref(src, hf, "x in %s(G, node)" % fname), "membership of x"))
    return out


def p_pd_edge(repo, et):
    src = Src(repo, PAG_PY)
    fn = src.func("uncovered_pd_path")
    sig(src, fn, ["graph", "u", "c", "max_path_length", "first_node", "second_node", "force_circle", "forbid_node"],
        [None, None, None, False, None])
    inner = [st for st in fn.body if isinstance(st, ast.FunctionDef) and st.name == "_pd_edge"]
    if len(inner) != 1:
        raise src.err(fn, "uncovered_pd_path: the nested function _pd_edge was not found")
    pe = inner[0]
    sig(src, pe, ["i", "j"], [])
    if {"graph", "force_circle", "_pd_edge"} & assigned_names([st for st in fn.body if st is not pe]) or \
            {"graph", "force_circle"} & assigned_names(pe.body):
        raise src.err(fn, "uncovered_pd_path rebinds graph / force_circle / _pd_edge")
    uses = find_all(fn, lambda n: isinstance(n, ast.Call) and isinstance(n.func, ast.Name) and n.func.id == "_pd_edge")
    want = sorted(dump(c, "eval") for c in ("_pd_edge(first_node, u)", "_pd_edge(u, second_node)", "_pd_edge(this_node, next_node)"))
    if sorted(ast.dump(c) for c in uses) != want:
        raise src.err(fn, "uncovered_pd_path: _pd_edge is not used exactly as _pd_edge(first_node, u), _pd_edge(u, second_node), "
                          "_pd_edge(this_node, next_node)")
    loops = find_all(fn, lambda n: isinstance(n, ast.For) and isinstance(n.target, ast.Name) and n.target.id == "next_node")
    if len(loops) != 1 or not same(loops[0].iter, "graph.neighbors(this_node)", "eval") or not any(
            same(st, "if not _pd_edge(this_node, next_node):\n    continue\n") for st in loops[0].body):
        raise src.err(fn, "uncovered_pd_path: expected `for next_node in graph.neighbors(this_node): ... if not _pd_edge(this_node, "
                          "next_node): continue`")
    it = Interp(src, et, [("i", "j")])
    env = {"graph": VGraph(), "i": VNode("i"), "j": VNode("j"), "force_circle": VBool(("p", "force_circle"))}
    ir = boolv(it.value(it.run(pe.body, env, False), pe), src, pe)
    return [Pred("pd_edge", "C18", ["force_circle"], [("i", "j")], ir, ref(src, pe, "uncovered_pd_path._pd_edge(i, j)"),
                 "the edge i *-* j is potentially directed from i to j (circle path if force_circle)")]


GROUPS = ["C06", "C16", "C17", "C18"]
TASKS = [  # (group, label, function)
    ("C16", "_possibly_directed", p_possibly_directed),
    ("C16", "possible_descendants / possible_ancestors step", p_poss_steps),
    ("C16", "semi_directed_paths tests", p_semi),
    ("C17", "is_definite_collider", p_definite_collider),
    ("C17", "pds triple test", p_pds_triple),
    ("C06", "_is_collider and helpers", p_is_collider),
    ("C18", "_pd_edge", p_pd_edge),
]

HEADER = ("(* GENERATED by /verif/translator/predicates.py from the Python sources named in the comments -- DO NOT EDIT.\n"
          "   Regenerated on every run of ./check C06 | C16 | C17 | C18 (and by setup.sh); rewritten only when the text changes.\n"
          "   gen_X       : the predicate as a boolean function of the pair states (and flags) it reads\n"
          "   gen_X_enum  : gen_X over the complete enumeration (flags over [false; true], the first two pair states over all 64\n"
          "                 states, a third one over small_pstates)\n"
          "   gen_X_cells : the same list as evaluated by the translator's own evaluator (Tie/Preds_Cxx.v proves enum = cells) *)\n"
          "From Coq Require Import Bool List.\nFrom PG Require Import C03.PState.\nImport ListNotations.\n\n"
          "(* n2 in G.neighbors(n1): some mark in some layer joins the pair *)\n"
          "Definition nbr (s : pstate) : bool := has_any4 s false || has_any4 s true.\n"
          "(* no mark, and each single mark *)\n"
          "Definition small_pstates : list pstate :=\n"
          "  [empty_ps; PS true false false false false false; PS false true false false false false;\n"
          "   PS false false true false false false; PS false false false true false false;\n"
          "   PS false false false false true false; PS false false false false false true].\n\n")


def _comment_safe(s):
    """text that cannot end or nest a Coq comment or open a string inside it"""
    return s.replace("*)", "* )").replace("(*", "( *").replace('"', "'")


class Result:
    def __init__(self):
        self.preds = {}          # name -> Pred
        self.problems = {}       # group -> [str]
        self.lines = {}          # auxiliary source lines (pds test line)
        self.text = ""


def generate(repo):
    res = Result()
    txt = HEADER
    try:
        et = read_edgetype(repo)
    except TranslationError as e:
        for g in GROUPS:
            res.problems.setdefault(g, []).append(str(e))
        res.text = txt + "(* TRANSLATION ERROR: %s *)\n" % _comment_safe(str(e))
        return res
    for group, label, fn in TASKS:
        try:
            r = fn(repo, et)
            if isinstance(r, tuple):
                r, res.lines["pds_test"] = r
            for p in r:
                res.preds[p.name] = p
                txt += p.text() + "\n"
        except TranslationError as e:
            res.problems.setdefault(group, []).append(str(e))
            txt += "(* TRANSLATION ERROR (%s: %s): %s\n   nothing is emitted for it: the lemmas of Tie/Preds_%s.v about it do not compile *)\n\n" % (
                group, label, _comment_safe(str(e)), group)
    res.text = txt
    return res


_CACHE = {}


def regenerate(repo=None, out_dir=GEN_DIR):
    """(Result, changed?) ; writes Gen_Preds.v when its text changed (also when some predicate was rejected: it is then absent)"""
    repo = repo or os.environ.get("VERIF_REPO", "/repo")
    res = generate(repo)
    os.makedirs(out_dir, exist_ok=True)
    p = os.path.join(out_dir, "Gen_Preds.v")
    old = open(p).read() if os.path.exists(p) else None
    changed = old != res.text
    if changed:
        with open(p + ".tmp", "w") as f:
            f.write(res.text)
        os.replace(p + ".tmp", p)
    _CACHE[repo] = res
    return res, changed


if __name__ == "__main__":
    res, changed = regenerate(sys.argv[1] if len(sys.argv) > 1 else None)
    print("predicates.py: %s (%d predicates)" % ("rewrote Gen_Preds.v" if changed else "Gen_Preds.v up to date", len(res.preds)))
    bad = False
    for g, ps in sorted(res.problems.items()):
        for pr in ps:
            bad = True
            print("translation error [%s]: %s" % (g, pr))
    sys.exit(1 if bad else 0)
