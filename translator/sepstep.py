"""Tie (T) for C01: fail-closed Python-ast -> Gallina translator for the transition rules of m_separated.

Reads  $VERIF_REPO/pywhy_graphs/networkx/algorithms/causal/m_separation.py : m_separated  and extracts the DECISION TABLE of its
two-deque search: for the node popped from the backward / forward deque, under which guards (node in z, node in an_z, has_*
layer switches, the early `continue`) which neighbour class (undirected neighbours / in_edges sources / out_edges targets /
bidirected neighbours) is appended to which deque.  It emits coq/theories/Gen/Gen_SepStep.v:

  gen_sep_step_sw hd hb hu g Z anZ s : list state     the pushes caused by popping state s = (node, false: backward | true: forward)
  gen_sep_step := gen_sep_step_sw true true true
  gen_sep_init X                                      the initial deque contents
  gen_push_guards, gen_pop_marks, gen_visited_ok      the visited-set bookkeeping as read: every push into deque D must be guarded
                                                      by `not in D_visited`, every pop from D must do D_visited.add(node)

Tie/SepStep_C01.v proves gen_sep_step = C01.Model.sep_step (same members), soundness of the layer switches, the visited
discipline, and transports msep_correct to the model built from the generated step.

Everything the translator does not recognise EXACTLY is a translation error (T:m_separation.py:<line>): a changed loop header, a
new statement or branch anywhere in the function body after the docstring, a different definition of an_z / has_* / G_* / the
deques, another iteration expression.  On an error the generated file contains no definitions, so the tie lemmas do not compile.
What is NOT read: the three raising guards before the search (only checked to consist of if/raise; the raising behaviour is
compared by correspondence) and the order of the deque operations (abstracted into a reachability closure by the model)."""
import ast
import os
import sys

VERIF = os.path.dirname(os.path.dirname(os.path.abspath(__file__)))
GEN_DIR = os.path.join(VERIF, "coq", "theories", "Gen")
REL = "pywhy_graphs/networkx/algorithms/causal/m_separation.py"
FNAME = "m_separation.py"
LAYERS = ("directed", "bidirected", "undirected")


class TErr(Exception):
    def __init__(self, line, msg):
        Exception.__init__(self, "T:%s:%s %s" % (FNAME, line, msg))
        self.line, self.msg = line, msg


class Result:
    def __init__(self):
        self.text = ""
        self.problems = []        # strings "T:m_separation.py:<line> ..."
        self.pushes = []          # dicts: line, block, cls, dest, guard, conds
        self.ok = False


def _dump(n):
    return ast.dump(n, annotate_fields=True, include_attributes=False)


def _is(node, code, mode="stmt"):
    """node is exactly the statement / expression `code`"""
    ref = ast.parse(code).body[0]
    if mode == "expr":
        ref = ref.value
    return _dump(node) == _dump(ref)


def _only_raises(stmts):
    for s in stmts:
        if isinstance(s, ast.Raise):
            continue
        if isinstance(s, ast.If) and not s.orelse and _only_raises(s.body) and not any(
                isinstance(x, (ast.NamedExpr, ast.Await, ast.Yield, ast.YieldFrom, ast.Lambda)) for x in ast.walk(s.test)):
            continue
        return False
    return bool(stmts)


CLS = {"parents": "parents", "children": "children", "siblings": "siblings", "unbrs": "unbrs"}


def _loop_class(f):
    """(neighbour class, loop variable) of a push loop header, or TErr"""
    it, tg = f.iter, f.target
    one = isinstance(tg, ast.Name)
    two = isinstance(tg, ast.Tuple) and len(tg.elts) == 2 and all(isinstance(e, ast.Name) for e in tg.elts)
    if one and _is(it, "G_undirected.neighbors(node)", "expr"):
        return "unbrs", tg.id
    if one and _is(it, "G_bidirected.neighbors(node)", "expr"):
        return "siblings", tg.id
    if one and _is(it, "G_directed.predecessors(node)", "expr"):
        return "parents", tg.id
    if one and _is(it, "G_directed.successors(node)", "expr"):
        return "children", tg.id
    if two and (_is(it, "G_directed.in_edges(nbunch=node)", "expr") or _is(it, "G_directed.in_edges(node)", "expr")):
        if tg.elts[1].id == "_" and tg.elts[0].id != "_":
            return "parents", tg.elts[0].id
    if two and (_is(it, "G_directed.out_edges(nbunch=node)", "expr") or _is(it, "G_directed.out_edges(node)", "expr")):
        if tg.elts[0].id == "_" and tg.elts[1].id != "_":
            return "children", tg.elts[1].id
    raise TErr(f.lineno, "unrecognised iteration `for %s in %s`" % (ast.unparse(tg), ast.unparse(it)))


NEEDS = {"unbrs": "has_undirected", "siblings": "has_bidirected", "parents": "has_directed", "children": "has_directed"}


def _q(line):
    """a source line quoted inside a Coq comment"""
    return line.strip().replace("(*", "( *").replace("*)", "* )")


class Block:
    def __init__(self, res, which, src):
        self.res, self.which, self.src = res, which, src     # which: "backward" | "forward"

    def line(self, n):
        return _q(self.src[n - 1])

    def cond(self, t):
        """Gallina boolean of an if-test"""
        for name, gal in (("z", "Z"), ("an_z", "anZ")):
            if _is(t, "node in %s" % name, "expr"):
                return "memb node %s" % gal
            if _is(t, "node not in %s" % name, "expr"):
                return "negb (memb node %s)" % gal
        if isinstance(t, ast.Name) and t.id in ("has_directed", "has_bidirected", "has_undirected"):
            return t.id
        raise TErr(t.lineno, "unrecognised guard `%s`" % ast.unparse(t))

    def push(self, f, conds, ind):
        cls, var = _loop_class(f)
        if var in ("node", "_") or len(f.body) != 1 or f.orelse:
            raise TErr(f.lineno, "unrecognised push loop")
        i = f.body[0]
        ok = isinstance(i, ast.If) and not i.orelse and len(i.body) == 1
        guard = dest = None
        if ok:
            for v in ("forward", "backward"):
                if _is(i.test, "%s not in %s_visited" % (var, v), "expr"):
                    guard = v
                if _is(i.body[0], "%s_deque.append(%s)" % (v, var)):
                    dest = v
        if guard is None or dest is None:
            raise TErr(f.lineno, "push loop body is not `if %s not in <d>_visited: <d>_deque.append(%s)`" % (var, var))
        self.res.pushes.append({"line": f.lineno, "block": self.which, "cls": cls, "dest": dest, "guard": guard,
                                "conds": list(conds)})
        return "%s(* L%d: %s ... %s *)\n%s%s (%s g node)" % (
            ind, f.lineno, self.line(f.lineno), self.line(i.body[0].lineno), ind, "bwd" if dest == "backward" else "fwd", cls)

    def stmts(self, ss, conds, ind, top):
        """Gallina list expression (as indented text) of a statement list"""
        if not ss:
            return ind + "[]"
        s, rest = ss[0], ss[1:]
        if isinstance(s, ast.For):
            return self.push(s, conds, ind) + " ++\n" + self.stmts(rest, conds, ind, top)
        if isinstance(s, ast.If) and not s.orelse:
            if len(s.body) == 1 and isinstance(s.body[0], ast.Continue):
                if not top:
                    raise TErr(s.lineno, "`continue` inside a nested branch")
                c = self.cond(s.test)
                return "%s(* L%d: %s continue *)\n%sif %s then [] else\n%s" % (
                    ind, s.lineno, self.line(s.lineno), ind, c, self.stmts(rest, conds + ["not(" + c + ")"], ind, top))
            c = self.cond(s.test)
            body = self.stmts(s.body, conds + [c], ind + "   ", False)
            return "%s(* L%d: %s *)\n%s(if %s then\n%s\n%s else []) ++\n%s" % (
                ind, s.lineno, self.line(s.lineno), ind, c, body, ind, self.stmts(rest, conds, ind, top))
        raise TErr(s.lineno, "unrecognised statement in the %s block: `%s`" % (self.which, self.line(s.lineno)))


def _block(res, blk, src):
    """one `if <d>_deque:` block of the while body -> (which, gallina text, pop mark)"""
    which = None
    for v in ("forward", "backward"):
        if _is(blk.test, "%s_deque" % v, "expr"):
            which = v
    if which is None or blk.orelse:
        raise TErr(blk.lineno, "while body: expected `if forward_deque:` / `if backward_deque:` without else")
    b = blk.body
    if len(b) < 3 or not _is(b[0], "node = %s_deque.popleft()" % which):
        raise TErr(blk.lineno, "%s block does not start with `node = %s_deque.popleft()`" % (which, which))
    mark = None
    for v in ("forward", "backward"):
        if _is(b[1], "%s_visited.add(node)" % v):
            mark = v
    if mark is None:
        raise TErr(b[1].lineno, "%s block: second statement is not `<d>_visited.add(node)`" % which)
    if not _is(b[2], "if node in y:\n    return False"):
        raise TErr(b[2].lineno, "%s block: third statement is not `if node in y: return False`" % which)
    text = Block(res, which, src).stmts(b[3:], [], "    ", True)
    return which, text, mark, blk.lineno


def generate(repo=None):
    repo = repo or os.environ.get("VERIF_REPO", "/repo")
    res = Result()
    path = os.path.join(repo, REL)
    try:
        text = open(path).read()
        src = text.split("\n")
        tree = ast.parse(text)
        fn = [n for n in tree.body if isinstance(n, ast.FunctionDef) and n.name == "m_separated"]
        if len(fn) != 1:
            raise TErr(1, "function m_separated not found exactly once")
        fn = fn[0]
        args = [a.arg for a in fn.args.args]
        if args != ["G", "x", "y", "z", "directed_edge_name", "bidirected_edge_name", "undirected_edge_name"]:
            raise TErr(fn.lineno, "signature of m_separated changed: %s" % args)
        body = list(fn.body)
        if body and isinstance(body[0], ast.Expr) and isinstance(body[0].value, ast.Constant) and isinstance(body[0].value.value, str):
            body = body[1:]
        seen = {}
        loop = None
        init = {}

        def once(key, s):
            if key in seen:
                raise TErr(s.lineno, "second definition of %s" % key)
            seen[key] = s.lineno

        i = 0
        while i < len(body):
            s = body[i]
            i += 1
            if isinstance(s, ast.While):
                loop = s
                break
            if isinstance(s, ast.If) and _only_raises([s]):
                continue
            done = False
            for v in ("forward", "backward"):
                if _is(s, "%s_visited = set()" % v):
                    once(v + "_visited", s)
                    done = True
                for arg, val in (("[]", "nil"), ("x", "X")):
                    if _is(s, "%s_deque = deque(%s)" % (v, arg)):
                        once(v + "_deque", s)
                        init[v] = (val, s.lineno)
                        done = True
            for L in LAYERS:
                if _is(s, "has_%s = %s_edge_name in G.edge_types" % (L, L)):
                    once("has_" + L, s)
                    done = True
                get = "G_%s = G.get_graphs(edge_type=%s_edge_name)" % (L, L)
                if L != "directed" and (_is(s, "if has_%s:\n    %s" % (L, get)) or _is(s, get)):
                    once("G_" + L, s)
                    done = True
            if _is(s, "an_z = z"):
                once("an_z0", s)
                done = True
            anz = "an_z = set().union(*[nx.ancestors(G_directed, x) for x in z]).union(z)"
            if _is(s, "if has_directed:\n    G_directed = G.get_graphs(edge_type=directed_edge_name)\n    " + anz):
                once("G_directed", s)
                once("an_z", s)
                done = True
            if not done:
                raise TErr(s.lineno, "unrecognised statement before the search loop: `%s`" % src[s.lineno - 1].strip())
        need = (["forward_visited", "backward_visited", "forward_deque", "backward_deque", "an_z0", "an_z", "G_directed"]
                + ["has_" + L for L in LAYERS] + ["G_bidirected", "G_undirected"])
        if loop is None:
            raise TErr(fn.lineno, "search loop not found")
        missing = [k for k in need if k not in seen]
        if missing:
            raise TErr(loop.lineno, "definitions not found before the loop: %s" % ", ".join(missing))
        if seen["an_z0"] > seen["an_z"] or seen["has_directed"] > seen["an_z"]:
            raise TErr(seen["an_z"], "an_z = z must precede the ancestor closure")
        if not (_is(loop.test, "forward_deque or backward_deque", "expr") or _is(loop.test, "backward_deque or forward_deque", "expr")):
            raise TErr(loop.lineno, "loop header changed: `while %s`" % ast.unparse(loop.test))
        if loop.orelse or len(body) != i + 1 or not _is(body[i], "return True"):
            raise TErr(loop.lineno, "the loop must be followed by exactly `return True`")
        if len(loop.body) != 2 or not all(isinstance(b, ast.If) for b in loop.body):
            raise TErr(loop.lineno, "while body must be the two blocks `if backward_deque:` and `if forward_deque:`")
        blocks = {}
        for b in loop.body:
            which, t, mark, ln = _block(res, b, src)
            if which in blocks:
                raise TErr(b.lineno, "two %s blocks" % which)
            blocks[which] = (t, mark, ln)
        if set(blocks) != {"forward", "backward"}:
            raise TErr(loop.lineno, "while body must have one backward and one forward block")
        res.text = _emit(repo, blocks, init, res.pushes, loop.lineno, src)
        res.ok = True
    except TErr as e:
        res.problems.append(str(e))
    except (OSError, SyntaxError) as e:
        res.problems.append("T:%s:1 cannot read / parse the source: %s" % (FNAME, e))
    if not res.ok:
        res.text = ("(* GENERATED by translator/sepstep.py - TRANSLATION FAILED, no definitions emitted (fail closed):\n   %s *)\n"
                    % "\n   ".join(p.replace("*)", "* )") for p in res.problems))
    return res


def _b(v):
    return "true" if v == "forward" else "false"


def _emit(repo, blocks, init, pushes, loopline, src):
    out = []
    out.append("(* GENERATED by translator/sepstep.py from %s - do not edit.\n"
               "   Decision table of the two-deque search of m_separated (while loop at L%d).\n"
               "   state (node, false) = node popped from backward_deque, (node, true) = popped from forward_deque. *)" % (REL, loopline))
    out.append("From Coq Require Import List Arith Bool.\nFrom PG Require Import Base.ListSet Graph.MGraph C01.Model.\nImport ListNotations.\n")
    out.append("Definition gen_sep_step_sw (has_directed has_bidirected has_undirected : bool)\n"
               "  (g : mgraph) (Z anZ : list nat) (s : state) : list state :=\n  let node := fst s in\n  if snd s then\n"
               "    (* L%d: %s *)\n%s\n  else\n    (* L%d: %s *)\n%s.\n" % (
                   blocks["forward"][2], _q(src[blocks["forward"][2] - 1]), blocks["forward"][0],
                   blocks["backward"][2], _q(src[blocks["backward"][2] - 1]), blocks["backward"][0]))
    out.append("Definition gen_sep_step : mgraph -> list nat -> list nat -> state -> list state := gen_sep_step_sw true true true.\n")
    ini = []
    for v, f in (("backward", "bwd"), ("forward", "fwd")):
        val, ln = init[v]
        ini.append("%s %s (* L%d: %s *)" % (f, "X" if val == "X" else "[]", ln, _q(src[ln - 1])))
    out.append("Definition gen_sep_init (X : list nat) : list state :=\n  %s ++\n  %s.\n" % tuple(ini))
    out.append("(* visited-set bookkeeping as read: (destination deque, visited set tested before the push), false = backward, true = forward *)")
    out.append("Definition gen_push_guards : list (bool * bool) :=\n  [ %s ].\n" % ";\n    ".join(
        "(%s, %s) (* L%d %s block: %s -> %s_deque, guard %s_visited *)" % (_b(p["dest"]), _b(p["guard"]), p["line"], p["block"],
                                                                        p["cls"], p["dest"], p["guard"]) for p in pushes))
    out.append("(* (deque popped, visited set the popped node is added to) *)")
    out.append("Definition gen_pop_marks : list (bool * bool) :=\n  [ (false, %s); (true, %s) ].\n" % (_b(blocks["backward"][1]), _b(blocks["forward"][1])))
    out.append("Definition gen_visited_ok : bool :=\n  forallb (fun p => Bool.eqb (fst p) (snd p)) gen_push_guards &&\n"
               "  forallb (fun p => Bool.eqb (fst p) (snd p)) gen_pop_marks.")
    return "\n".join(out) + "\n"


_CACHE = {}


def regenerate(repo=None, out_dir=GEN_DIR):
    """(Result, changed?); writes Gen_SepStep.v when its text changed (on a translation error: a file without definitions)"""
    repo = repo or os.environ.get("VERIF_REPO", "/repo")
    res = generate(repo)
    os.makedirs(out_dir, exist_ok=True)
    p = os.path.join(out_dir, "Gen_SepStep.v")
    old = open(p).read() if os.path.exists(p) else None
    changed = old != res.text
    if changed:
        with open(p + ".tmp", "w") as f:
            f.write(res.text)
        os.replace(p + ".tmp", p)
    _CACHE[repo] = res
    return res, changed


if __name__ == "__main__":
    r, ch = regenerate(sys.argv[1] if len(sys.argv) > 1 else None)
    print("sepstep.py: %s (%d pushes)" % ("rewrote Gen_SepStep.v" if ch else "Gen_SepStep.v up to date", len(r.pushes)))
    for pr in r.problems:
        print("translation error [C01]: " + pr)
    sys.exit(1 if r.problems else 0)
